//! C09: STARK proofs are accepted exactly for traces that satisfy the constraints
//! (+ the STARK entry point of C18, sub-command `c18stark`).
//!
//! A parametrised STARK family is defined HERE, outside the starky crate, through the public
//! `Stark` trait: constraints are data (`Expr` over local / next / public values with a kind
//! first | last | transition | always), interpreted by `eval_packed_generic`.
//!
//! Lines written:
//!   `c09 <family> <case> = <1|0> # detail`          verdict lines, 1 = the property held
//!   `sat <cs> <pis> <nrows> <trace> = <0|1>`        the harness' own constraint check (spec/model replay)
//!   `l0last <log_n> <x0> <x1> = a0 a1 b0 b1`        real eval_l_0_and_l_last over the quadratic extension
//!   `l0lastb <log_n> <x> = a b`                     the same over the base field
//!   `consumer ..`, `vanish ..`, `starkid ..`        real ConstraintConsumer / Stark::eval_ext / verifier identity
//!   `c18stark <base> <mutation id> = ok|err|panic@site # description`
use std::io::Write;
use std::panic::{catch_unwind, AssertUnwindSafe};
use std::sync::Arc;

use plonky2::field::extension::quadratic::QuadraticExtension;
use plonky2::field::extension::FieldExtension;
use plonky2::field::goldilocks_field::GoldilocksField;
use plonky2::field::packed::PackedField;
use plonky2::field::polynomial::PolynomialValues;
use plonky2::field::types::{Field, PrimeField64};
use plonky2::fri::reduction_strategies::FriReductionStrategy;
use plonky2::fri::FriConfig;
use plonky2::hash::hash_types::HashOut;
use plonky2::iop::challenger::Challenger;
use plonky2::iop::ext_target::ExtensionTarget;
use plonky2::plonk::circuit_builder::CircuitBuilder;
use plonky2::plonk::config::{GenericConfig, PoseidonGoldilocksConfig};
use plonky2::util::timing::TimingTree;
use serde_json::Value;
use starky::config::StarkConfig;
use starky::constraint_consumer::{ConstraintConsumer, RecursiveConstraintConsumer};
use starky::evaluation_frame::{StarkEvaluationFrame, StarkFrame};
use starky::lookup::{Column, Filter, Lookup};
use starky::proof::StarkProofWithPublicInputs;
use starky::prover::prove;
use starky::stark::Stark;
use starky::verifier::verify_stark_proof;

use crate::rng::*;

pub const D: usize = 2;
pub type F = GoldilocksField;
pub type C = PoseidonGoldilocksConfig;
pub type FE = QuadraticExtension<F>;
pub type Sp = StarkProofWithPublicInputs<F, C, D>;

/// base field element embedded in the quadratic extension
pub fn feb(x: F) -> FE { <FE as FieldExtension<D>>::from_basefield(x) }

// ------------------------------------------------------------------------------------------
// constraints as data

#[derive(Clone, Debug)]
pub enum Expr {
    Const(u64),
    Local(usize),
    Next(usize),
    Pub(usize),
    Add(Box<Expr>, Box<Expr>),
    Sub(Box<Expr>, Box<Expr>),
    Mul(Box<Expr>, Box<Expr>),
}
use Expr::*;

pub fn add(a: Expr, b: Expr) -> Expr { Add(Box::new(a), Box::new(b)) }
pub fn sub(a: Expr, b: Expr) -> Expr { Sub(Box::new(a), Box::new(b)) }
pub fn mul(a: Expr, b: Expr) -> Expr { Mul(Box::new(a), Box::new(b)) }

impl Expr {
    pub fn eval<P: PackedField>(&self, lv: &[P], nv: &[P], pis: &[P::Scalar]) -> P {
        match self {
            Const(c) => P::from(P::Scalar::from_canonical_u64(*c)),
            Local(i) => lv[*i],
            Next(i) => nv[*i],
            Pub(i) => P::from(pis[*i]),
            Add(a, b) => a.eval(lv, nv, pis) + b.eval(lv, nv, pis),
            Sub(a, b) => a.eval(lv, nv, pis) - b.eval(lv, nv, pis),
            Mul(a, b) => a.eval(lv, nv, pis) * b.eval(lv, nv, pis),
        }
    }
    /// the same expression as a circuit over extension targets (recursive verifier, C11)
    pub fn eval_circuit(&self, b: &mut CircuitBuilder<F, D>, lv: &[ExtensionTarget<D>], nv: &[ExtensionTarget<D>],
                        pis: &[ExtensionTarget<D>]) -> ExtensionTarget<D> {
        match self {
            Const(c) => b.constant_extension(FE::from(F::from_canonical_u64(*c))),
            Local(i) => lv[*i],
            Next(i) => nv[*i],
            Pub(i) => pis[*i],
            Add(x, y) => { let (u, v) = (x.eval_circuit(b, lv, nv, pis), y.eval_circuit(b, lv, nv, pis)); b.add_extension(u, v) }
            Sub(x, y) => { let (u, v) = (x.eval_circuit(b, lv, nv, pis), y.eval_circuit(b, lv, nv, pis)); b.sub_extension(u, v) }
            Mul(x, y) => { let (u, v) = (x.eval_circuit(b, lv, nv, pis), y.eval_circuit(b, lv, nv, pis)); b.mul_extension(u, v) }
        }
    }
    /// degree in the trace columns
    pub fn degree(&self) -> usize {
        match self {
            Const(_) | Pub(_) => 0,
            Local(_) | Next(_) => 1,
            Add(a, b) | Sub(a, b) => a.degree().max(b.degree()),
            Mul(a, b) => a.degree() + b.degree(),
        }
    }
    /// postfix token stream: 0 c | 1 i | 2 i | 3 i | 4 (add) | 5 (sub) | 6 (mul)
    pub fn rpn(&self, out: &mut Vec<u64>) {
        match self {
            Const(c) => { out.push(0); out.push(*c) }
            Local(i) => { out.push(1); out.push(*i as u64) }
            Next(i) => { out.push(2); out.push(*i as u64) }
            Pub(i) => { out.push(3); out.push(*i as u64) }
            Add(a, b) => { a.rpn(out); b.rpn(out); out.push(4) }
            Sub(a, b) => { a.rpn(out); b.rpn(out); out.push(5) }
            Mul(a, b) => { a.rpn(out); b.rpn(out); out.push(6) }
        }
    }
}

#[derive(Clone, Copy, Debug, PartialEq, Eq)]
pub enum Kind { First = 0, Last = 1, Transition = 2, Always = 3 }

#[derive(Clone, Debug)]
pub struct Constraint { pub kind: Kind, pub expr: Expr }

/// `Column` / `Filter` / `Lookup` as data (starky's `Lookup` is not `Clone`)
#[derive(Clone, Debug, Default)]
pub struct ColSpec { pub lin: Vec<(usize, u64)>, pub next: Vec<(usize, u64)>, pub constant: u64 }
impl ColSpec {
    pub fn single(c: usize) -> Self { ColSpec { lin: vec![(c, 1)], next: vec![], constant: 0 } }
    pub fn single_next(c: usize) -> Self { ColSpec { lin: vec![], next: vec![(c, 1)], constant: 0 } }
    pub fn constant(k: u64) -> Self { ColSpec { lin: vec![], next: vec![], constant: k } }
    pub fn to_column(&self) -> Column<F> {
        if self.lin.is_empty() && self.next.is_empty() {
            return Column::constant(F::from_canonical_u64(self.constant));
        }
        let l: Vec<(usize, F)> = self.lin.iter().map(|&(c, k)| (c, F::from_canonical_u64(k))).collect();
        let n: Vec<(usize, F)> = self.next.iter().map(|&(c, k)| (c, F::from_canonical_u64(k))).collect();
        Column::linear_combination_and_next_row_with_constant(l, n, F::from_canonical_u64(self.constant))
    }
    /// value on row `r` of a row-major trace (next row wraps around)
    pub fn eval_rows(&self, rows: &[Vec<F>], r: usize) -> F {
        let n = rows.len();
        let mut s = F::from_canonical_u64(self.constant);
        for &(c, k) in &self.lin { s += rows[r][c] * F::from_canonical_u64(k) }
        for &(c, k) in &self.next { s += rows[(r + 1) % n][c] * F::from_canonical_u64(k) }
        s
    }
}
#[derive(Clone, Debug, Default)]
pub struct FilterSpec { pub products: Vec<(ColSpec, ColSpec)>, pub constants: Vec<ColSpec> }
impl FilterSpec {
    pub fn always() -> Self { FilterSpec { products: vec![], constants: vec![ColSpec::constant(1)] } }
    pub fn simple(c: ColSpec) -> Self { FilterSpec { products: vec![], constants: vec![c] } }
    pub fn to_filter(&self) -> Filter<F> {
        Filter::new(self.products.iter().map(|(a, b)| (a.to_column(), b.to_column())).collect(),
                    self.constants.iter().map(|c| c.to_column()).collect())
    }
    pub fn eval_rows(&self, rows: &[Vec<F>], r: usize) -> F {
        let mut s = F::ZERO;
        for (a, b) in &self.products { s += a.eval_rows(rows, r) * b.eval_rows(rows, r) }
        for c in &self.constants { s += c.eval_rows(rows, r) }
        s
    }
}
#[derive(Clone, Debug)]
pub struct LookupSpec { pub columns: Vec<ColSpec>, pub table: ColSpec, pub freq: ColSpec, pub filters: Vec<FilterSpec> }

#[derive(Debug)]
pub struct FamSpec {
    pub name: String,
    pub ncols: usize,
    pub npi: usize,
    pub degree: usize,
    pub cons: Vec<Constraint>,
    pub lookups: Vec<LookupSpec>,
    pub ctl: bool,
}

impl FamSpec {
    /// `ncols npi ncons (kind len tok..)*`
    pub fn encode(&self) -> Vec<u64> {
        let mut v = vec![self.ncols as u64, self.npi as u64, self.cons.len() as u64];
        for c in &self.cons {
            let mut t = vec![];
            c.expr.rpn(&mut t);
            v.push(c.kind as u64);
            v.push(t.len() as u64);
            v.extend(t);
        }
        v
    }
    /// the harness' own statement of "the trace satisfies the constraints": first-row constraints
    /// on row 0, last-row constraints on row n-1, transition constraints on rows 0..n-2 (next =
    /// row+1), `always` constraints on every row with next wrapping around. Returns the first
    /// violated (row, constraint index).
    pub fn violated(&self, rows: &[Vec<F>], pis: &[F]) -> Option<(usize, usize)> {
        let n = rows.len();
        for r in 0..n {
            let nv = &rows[(r + 1) % n];
            for (ci, c) in self.cons.iter().enumerate() {
                let applies = match c.kind {
                    Kind::First => r == 0,
                    Kind::Last => r == n - 1,
                    Kind::Transition => r != n - 1,
                    Kind::Always => true,
                };
                if applies && c.expr.eval::<F>(&rows[r], nv, pis) != F::ZERO {
                    return Some((r, ci));
                }
            }
        }
        None
    }
}

#[derive(Clone)]
pub struct Fam<const N: usize, const PI: usize> { pub spec: Arc<FamSpec> }

impl<const N: usize, const PI: usize> Stark<F, D> for Fam<N, PI> {
    type EvaluationFrame<FE2, P, const D2: usize> = StarkFrame<P, P::Scalar, N, PI>
    where
        FE2: FieldExtension<D2, BaseField = F>,
        P: PackedField<Scalar = FE2>;
    type EvaluationFrameTarget = StarkFrame<ExtensionTarget<D>, ExtensionTarget<D>, N, PI>;

    fn eval_packed_generic<FE2, P, const D2: usize>(
        &self,
        vars: &Self::EvaluationFrame<FE2, P, D2>,
        yield_constr: &mut ConstraintConsumer<P>,
    ) where
        FE2: FieldExtension<D2, BaseField = F>,
        P: PackedField<Scalar = FE2>,
    {
        let lv = vars.get_local_values();
        let nv = vars.get_next_values();
        let pis = vars.get_public_inputs();
        for c in &self.spec.cons {
            let v: P = c.expr.eval(lv, nv, pis);
            match c.kind {
                Kind::First => yield_constr.constraint_first_row(v),
                Kind::Last => yield_constr.constraint_last_row(v),
                Kind::Transition => yield_constr.constraint_transition(v),
                Kind::Always => yield_constr.constraint(v),
            }
        }
    }

    fn eval_ext_circuit(
        &self,
        builder: &mut CircuitBuilder<F, D>,
        vars: &Self::EvaluationFrameTarget,
        yield_constr: &mut RecursiveConstraintConsumer<F, D>,
    ) {
        let lv = vars.get_local_values();
        let nv = vars.get_next_values();
        let pis = vars.get_public_inputs();
        for c in &self.spec.cons {
            let v = c.expr.eval_circuit(builder, lv, nv, pis);
            match c.kind {
                Kind::First => yield_constr.constraint_first_row(builder, v),
                Kind::Last => yield_constr.constraint_last_row(builder, v),
                Kind::Transition => yield_constr.constraint_transition(builder, v),
                Kind::Always => yield_constr.constraint(builder, v),
            }
        }
    }

    fn constraint_degree(&self) -> usize { self.spec.degree }

    fn lookups(&self) -> Vec<Lookup<F>> {
        self.spec.lookups.iter().map(|l| Lookup {
            columns: l.columns.iter().map(|c| c.to_column()).collect(),
            table_column: l.table.to_column(),
            frequencies_column: l.freq.to_column(),
            filter_columns: l.filters.iter().map(|f| f.to_filter()).collect(),
        }).collect()
    }

    fn requires_ctls(&self) -> bool { self.spec.ctl }
}

// ------------------------------------------------------------------------------------------
// type-erased driver: everything that depends on the const generics (N, PI)

pub enum ProveOut { Proof(Box<Sp>), Err(String), Panic(String) }

pub struct Driver {
    pub spec: Arc<FamSpec>,
    pub prove: Box<dyn Fn(&StarkConfig, &[Vec<F>], &[F]) -> ProveOut>,
    /// `ok` | `err` | `err:quotient` (the identity check at zeta failed) | `panic@site`
    pub verify: Box<dyn Fn(&StarkConfig, Sp) -> String>,
    /// (alphas, zeta) the verifier derives for this proof (None if deriving them panics)
    pub challenges: Box<dyn Fn(&StarkConfig, &Sp) -> Option<(Vec<F>, FE)>>,
    /// accumulators of the real ConstraintConsumer driven by Stark::eval_ext
    pub vanish: Box<dyn Fn(usize, FE, &[F], &[F], &[FE], &[FE]) -> Option<Vec<FE>>>,
    /// accumulators after lookup::eval_packed_lookups_generic on explicit values:
    /// (alphas, z_last, l_first, l_last, local, next, aux local, aux next, challenges)
    pub lkeval: Box<dyn Fn(&[FE], FE, FE, FE, &[FE], &[FE], &[FE], &[FE], &[F]) -> Option<Vec<FE>>>,
    /// a prover that never commits to quotient polynomials: the proof carries `quotient_polys_cap = None`
    /// and quotient openings fitted after zeta is known (for any trace, satisfying or not)
    pub forge_uncommitted_quotient: Box<dyn Fn(&StarkConfig, &[Vec<F>], &[F]) -> ProveOut>,
    /// `starkshape <what the Stark and the configuration say> <presence / lengths of the proof's parts> = 1|0|panic`:
    /// the verdict of verifier::validate_proof_shape (Model/StarkShape.v)
    pub shape_line: Box<dyn Fn(&StarkConfig, &Sp) -> String>,
}

/// The forger behind `Driver::forge_uncommitted_quotient` (STARKs without lookups or CTLs).  It follows the
/// honest prover's transcript up to the constraint challenges, skips the quotient commitment, draws zeta,
/// and only then picks "quotient polynomials" a + bX (and zeros) whose values at zeta satisfy the
/// verifier's identity for whatever the trace is; the FRI proof over them is honest (they are low-degree).
fn forge_uncommitted_quotient<const N: usize, const PI: usize>(stark: &Fam<N, PI>, cfg: &StarkConfig, rows: &[Vec<F>], pis: &[F]) -> anyhow::Result<Sp> {
    use plonky2::field::polynomial::PolynomialCoeffs;
    use plonky2::fri::oracle::PolynomialBatch;
    use plonky2::fri::structure::{FriOpeningBatch, FriOpenings};
    use starky::proof::{StarkOpeningSet, StarkProof};
    let degree = rows.len();
    let degree_bits = degree.trailing_zeros() as usize;
    let (rate_bits, cap_height) = (cfg.fri_config.rate_bits, cfg.fri_config.cap_height);
    let fri_params = cfg.fri_params(degree_bits);
    let mut timing = TimingTree::default();
    let tc = PolynomialBatch::<F, C, D>::from_values(to_poly_values(rows, N), rate_bits, false, cap_height, &mut timing, None);
    let trace_cap = tc.merkle_tree.cap.clone();
    let mut ch = Challenger::<F, <C as GenericConfig<D>>::Hasher>::new();
    ch.observe_elements(pis);
    cfg.observe(&mut ch);
    ch.observe_cap(&trace_cap);
    let nch = cfg.num_challenges;
    let vanish = |zeta: FE, alphas: &[F], lv: &[FE], nv: &[FE]| -> Vec<FE> {
        let (l0, ll) = starky::verif_hooks::eval_l_0_and_l_last(degree_bits, zeta);
        let last = F::primitive_root_of_unity(degree_bits).inverse();
        let mut consumer = ConstraintConsumer::<FE>::new(alphas.iter().map(|&a| feb(a)).collect(), zeta - feb(last), l0, ll);
        let pis_e: Vec<FE> = pis.iter().map(|&x| feb(x)).collect();
        let vars = StarkFrame::<FE, FE, N, PI>::from_values(lv, nv, &pis_e);
        stark.eval_ext(&vars, &mut consumer);
        consumer.accumulators()
    };
    // the prover's constraint-binding step (prove_with_commitment), replayed
    let alphas_prime = ch.get_n_challenges(nch);
    let total = N * 2;
    let pow_degree = core::cmp::max(2, stark.constraint_degree() + 1);
    let num_extension_powers = core::cmp::max(1, 50 / plonky2::util::log2_ceil(pow_degree) - 1);
    let simulating_zetas = ch.get_n_extension_challenges::<D>(total.div_ceil(num_extension_powers));
    let nb = core::cmp::min(num_extension_powers + 1, total);
    let dummy: Vec<FE> = simulating_zetas.iter()
        .flat_map(|&z| std::iter::successors(Some(z), move |prev: &FE| Some(prev.exp_u64(pow_degree as u64))).take(nb)).collect();
    let zeta_prime = ch.get_extension_challenge::<D>();
    let constraints = vanish(zeta_prime, &alphas_prime, &dummy[..N], &dummy[N..2 * N]);
    ch.observe_extension_elements::<D>(&constraints);
    let alphas = ch.get_n_challenges(nch);
    // no quotient commitment is observed
    let zeta = ch.get_extension_challenge::<D>();
    let g = F::primitive_root_of_unity(degree_bits);
    let ev = |p: &PolynomialCoeffs<F>, z: FE| p.to_extension::<D>().eval(z);
    let local: Vec<FE> = tc.polynomials.iter().map(|p| ev(p, zeta)).collect();
    let next: Vec<FE> = tc.polynomials.iter().map(|p| ev(p, zeta * feb(g))).collect();
    let van = vanish(zeta, &alphas, &local, &next);
    let z_h = zeta.exp_power_of_2(degree_bits) - FE::ONE;
    let qdf = stark.quotient_degree_factor();
    let za: [F; 2] = <FE as FieldExtension<D>>::to_basefield_array(&zeta);
    let mut qpolys = vec![];
    for i in 0..nch {
        let t: [F; 2] = <FE as FieldExtension<D>>::to_basefield_array(&(van[i] / z_h));
        let b = t[1] / za[1];
        let a = t[0] - b * za[0];
        let mut c = vec![F::ZERO; degree];
        c[0] = a;
        c[1] = b;
        qpolys.push(PolynomialCoeffs::new(c));
        for _ in 1..qdf { qpolys.push(PolynomialCoeffs::new(vec![F::ZERO; degree])); }
    }
    let qc = PolynomialBatch::<F, C, D>::from_coeffs(qpolys, rate_bits, false, cap_height, &mut timing, None);
    let quot: Vec<FE> = qc.polynomials.iter().map(|p| ev(p, zeta)).collect();
    let openings = StarkOpeningSet { local_values: local.clone(), next_values: next.clone(), auxiliary_polys: None, auxiliary_polys_next: None,
                                     ctl_zs_first: None, quotient_polys: Some(quot.clone()) };
    ch.observe_openings::<D>(&FriOpenings::<F, D> { batches: vec![
        FriOpeningBatch::<F, D> { values: local.iter().chain(quot.iter()).copied().collect() },
        FriOpeningBatch::<F, D> { values: next.clone() }] });
    let opening_proof = PolynomialBatch::prove_openings(&stark.fri_instance(zeta, g, 0, vec![], cfg), &[&tc, &qc], &mut ch, &fri_params, None, None, &mut timing);
    Ok(StarkProofWithPublicInputs {
        proof: StarkProof { trace_cap, auxiliary_polys_cap: None, quotient_polys_cap: None, openings, opening_proof },
        public_inputs: pis.to_vec(),
    })
}

pub fn to_poly_values(rows: &[Vec<F>], ncols: usize) -> Vec<PolynomialValues<F>> {
    (0..ncols).map(|c| PolynomialValues::new(rows.iter().map(|r| r[c]).collect())).collect()
}

pub fn verdict<T>(f: impl FnOnce() -> anyhow::Result<T>) -> String {
    match catch_unwind(AssertUnwindSafe(f)) {
        Ok(Ok(_)) => "ok".into(),
        Ok(Err(e)) => {
            if format!("{e}").contains("Mismatch between evaluation and opening of quotient") { "err:quotient".into() } else { "err".into() }
        }
        Err(_) => panic_site(),
    }
}

fn make<const N: usize, const PI: usize>(spec: Arc<FamSpec>) -> Driver {
    assert_eq!((spec.ncols, spec.npi), (N, PI));
    let s1 = spec.clone();
    let s2 = spec.clone();
    let s3 = spec.clone();
    let s4 = spec.clone();
    let s5 = spec.clone();
    let s6 = spec.clone();
    let s7 = spec.clone();
    Driver {
        spec,
        prove: Box::new(move |cfg, rows, pis| {
            let stark = Fam::<N, PI> { spec: s1.clone() };
            let trace = to_poly_values(rows, N);
            match catch_unwind(AssertUnwindSafe(|| prove::<F, C, Fam<N, PI>, D>(stark, cfg, trace, pis, None, &mut TimingTree::default()))) {
                Ok(Ok(p)) => ProveOut::Proof(Box::new(p)),
                Ok(Err(e)) => ProveOut::Err(format!("{e}")),
                Err(_) => ProveOut::Panic(panic_site()),
            }
        }),
        verify: Box::new(move |cfg, p| {
            let stark = Fam::<N, PI> { spec: s2.clone() };
            verdict(|| verify_stark_proof::<F, C, Fam<N, PI>, D>(stark, p, cfg, None))
        }),
        challenges: Box::new(move |cfg, p| {
            let stark = Fam::<N, PI> { spec: s3.clone() };
            catch_unwind(AssertUnwindSafe(|| {
                let mut ch = Challenger::<F, <C as GenericConfig<D>>::Hasher>::new();
                let c = p.get_challenges(&stark, &mut ch, None, None, false, cfg, None);
                (c.stark_alphas.clone(), c.stark_zeta)
            })).ok()
        }),
        vanish: Box::new(move |degree_bits, zeta, alphas, pis, lv, nv| {
            let stark = Fam::<N, PI> { spec: s4.clone() };
            catch_unwind(AssertUnwindSafe(|| {
                let (l0, ll) = starky::verif_hooks::eval_l_0_and_l_last(degree_bits, zeta);
                let last = F::primitive_root_of_unity(degree_bits).inverse();
                let z_last = zeta - feb(last);
                let mut consumer = ConstraintConsumer::<FE>::new(
                    alphas.iter().map(|&a| feb(a)).collect(), z_last, l0, ll);
                let pis_e: Vec<FE> = pis.iter().map(|&x| feb(x)).collect();
                let vars = StarkFrame::<FE, FE, N, PI>::from_values(lv, nv, &pis_e);
                stark.eval_ext(&vars, &mut consumer);
                consumer.accumulators()
            })).ok()
        }),
        lkeval: Box::new(move |alphas, zl, l0, ll, lv, nv, auxl, auxn, chs| {
            let stark = Fam::<N, PI> { spec: s5.clone() };
            catch_unwind(AssertUnwindSafe(|| {
                let mut consumer = ConstraintConsumer::<FE>::new(alphas.to_vec(), zl, l0, ll);
                let pis_e: Vec<FE> = vec![FE::ZERO; PI];
                let vars = StarkFrame::<FE, FE, N, PI>::from_values(lv, nv, &pis_e);
                starky::verif_hooks::eval_lookups_ext::<F, Fam<N, PI>, D>(&stark, &vars, auxl, auxn, chs, &mut consumer);
                consumer.accumulators()
            })).ok()
        }),
        shape_line: Box::new(move |cfg, p| {
            let stark = Fam::<N, PI> { spec: s7.clone() };
            let o = |x: Option<usize>| x.map_or(-1i64, |l| l as i64);
            let pr = &p.proof;
            let op = &pr.openings;
            let first_path = pr.opening_proof.query_round_proofs.first()
                .and_then(|q| q.initial_trees_proof.evals_proofs.first()).map(|(_, m)| m.siblings.len());
            let args: Vec<i64> = vec![
                cfg.fri_config.cap_height as i64, cfg.fri_config.rate_bits as i64, N as i64, PI as i64,
                stark.uses_lookups() as i64, stark.requires_ctls() as i64, stark.num_lookup_helper_columns(cfg) as i64,
                stark.num_quotient_polys(cfg) as i64, 0, 0,
                p.public_inputs.len() as i64, o(first_path), pr.trace_cap.0.len() as i64,
                o(pr.auxiliary_polys_cap.as_ref().map(|c| c.0.len())), o(pr.quotient_polys_cap.as_ref().map(|c| c.0.len())),
                op.local_values.len() as i64, op.next_values.len() as i64,
                o(op.auxiliary_polys.as_ref().map(|v| v.len())), o(op.auxiliary_polys_next.as_ref().map(|v| v.len())),
                o(op.ctl_zs_first.as_ref().map(|v| v.len())), o(op.quotient_polys.as_ref().map(|v| v.len()))];
            let v = match catch_unwind(AssertUnwindSafe(|| starky::verif_hooks::validate_proof_shape::<F, C, Fam<N, PI>, D>(&stark, &p.proof, &p.public_inputs, cfg, 0, 0))) {
                Ok(Ok(())) => "1", Ok(Err(_)) => "0", Err(_) => "panic" };
            format!("starkshape {} = {}", args.iter().map(|x| x.to_string()).collect::<Vec<_>>().join(" "), v)
        }),
        forge_uncommitted_quotient: Box::new(move |cfg, rows, pis| {
            let stark = Fam::<N, PI> { spec: s6.clone() };
            match catch_unwind(AssertUnwindSafe(|| forge_uncommitted_quotient::<N, PI>(&stark, cfg, rows, pis))) {
                Ok(Ok(p)) => ProveOut::Proof(Box::new(p)),
                Ok(Err(e)) => ProveOut::Err(format!("{e}")),
                Err(_) => ProveOut::Panic(panic_site()),
            }
        }),
    }
}

macro_rules! dispatch {
    ($spec:expr; $(($n:literal, $p:literal)),*) => {
        match ($spec.ncols, $spec.npi) {
            $(($n, $p) => make::<$n, $p>($spec),)*
            other => panic!("no instantiation for (columns, public inputs) = {:?}", other),
        }
    };
}

/// Generic access to the const-generic family from other modules (C11 builds recursive verifiers).
pub trait FamVisitor {
    type Out;
    fn visit<const N: usize, const PI: usize>(self, stark: Fam<N, PI>) -> Self::Out;
}
macro_rules! visit_dispatch {
    ($spec:expr, $v:expr; $(($n:literal, $p:literal)),*) => {
        match ($spec.ncols, $spec.npi) {
            $(($n, $p) => $v.visit(Fam::<$n, $p> { spec: $spec }),)*
            other => panic!("no instantiation for (columns, public inputs) = {:?}", other),
        }
    };
}
pub fn visit_fam<V: FamVisitor>(spec: Arc<FamSpec>, v: V) -> V::Out {
    visit_dispatch!(spec, v; (1, 0), (1, 1), (2, 0), (2, 1), (2, 3), (3, 0), (3, 1), (3, 3), (4, 0), (4, 2),
                    (5, 1), (6, 0), (6, 2), (7, 1), (8, 0), (8, 3))
}

/// the (columns, public inputs) pairs that are instantiated
pub const SHAPES: &[(usize, usize)] = &[(1, 0), (1, 1), (2, 0), (2, 1), (2, 3), (3, 0), (3, 1), (3, 3), (4, 0), (4, 2),
                                        (5, 1), (6, 0), (6, 2), (7, 1), (8, 0), (8, 3)];

pub fn driver(spec: Arc<FamSpec>) -> Driver {
    dispatch!(spec; (1, 0), (1, 1), (2, 0), (2, 1), (2, 3), (3, 0), (3, 1), (3, 3), (4, 0), (4, 2),
              (5, 1), (6, 0), (6, 2), (7, 1), (8, 0), (8, 3))
}

// ------------------------------------------------------------------------------------------
// configurations

pub fn fri(rate_bits: usize, cap_height: usize, pow: u32, strat: FriReductionStrategy, queries: usize) -> FriConfig {
    FriConfig { rate_bits, cap_height, proof_of_work_bits: pow, reduction_strategy: strat, num_query_rounds: queries }
}

pub fn stark_configs() -> Vec<(&'static str, StarkConfig)> {
    use FriReductionStrategy::*;
    let mk = |nch: usize, f: FriConfig| StarkConfig::new((f.num_query_rounds * f.rate_bits + f.proof_of_work_bits as usize).min(100), nch, f);
    vec![
        ("r1c1a1", mk(2, fri(1, 1, 3, ConstantArityBits(1, 2), 6))),
        ("r2c0fix", mk(1, fri(2, 0, 0, Fixed(vec![1, 1]), 4))),
        ("r3c2min", mk(3, fri(3, 2, 5, MinSize(None), 5))),
        ("r1c4std", mk(2, fri(1, 4, 4, ConstantArityBits(4, 5), 10))),
        ("r2c1a2", mk(2, fri(2, 1, 2, ConstantArityBits(2, 1), 7))),
        ("r1c0min3", mk(1, fri(1, 0, 1, MinSize(Some(3)), 8))),
    ]
}

// ------------------------------------------------------------------------------------------
// families (specification + a satisfying trace)

pub struct Built {
    pub spec: Arc<FamSpec>,
    pub rows: Vec<Vec<F>>,
    pub pis: Vec<F>,
    /// columns worth corrupting: (column, role)
    pub cols: Vec<(usize, &'static str)>,
}

fn fe(x: u64) -> F { F::from_noncanonical_u64(x) }
fn rf(r: &mut Rng) -> F { fe(r.next_u64()) }

pub fn build_fib(n: usize, x0: u64, x1: u64) -> Built {
    let cons = vec![
        Constraint { kind: Kind::First, expr: sub(Local(0), Pub(0)) },
        Constraint { kind: Kind::First, expr: sub(Local(1), Pub(1)) },
        Constraint { kind: Kind::Last, expr: sub(Local(1), Pub(2)) },
        Constraint { kind: Kind::Transition, expr: sub(Next(0), Local(1)) },
        Constraint { kind: Kind::Transition, expr: sub(sub(Next(1), Local(0)), Local(1)) },
    ];
    let mut rows = vec![vec![fe(x0), fe(x1)]];
    for i in 1..n { let p = rows[i - 1].clone(); rows.push(vec![p[1], p[0] + p[1]]) }
    let pis = vec![fe(x0), fe(x1), rows[n - 1][1]];
    Built { spec: Arc::new(FamSpec { name: "fib".into(), ncols: 2, npi: 3, degree: 2, cons, lookups: vec![], ctl: false }),
            rows, pis, cols: vec![(0, "state"), (1, "state")] }
}

/// the lib.rs doc example: Fibonacci with a row counter
pub fn build_fib3(n: usize, x0: u64, x1: u64) -> Built {
    let cons = vec![
        Constraint { kind: Kind::First, expr: sub(Local(0), Pub(0)) },
        Constraint { kind: Kind::First, expr: sub(Local(1), Pub(1)) },
        Constraint { kind: Kind::Last, expr: sub(Local(1), Pub(2)) },
        Constraint { kind: Kind::Transition, expr: sub(Next(0), Local(1)) },
        Constraint { kind: Kind::Transition, expr: sub(sub(Next(1), Local(0)), Local(1)) },
        Constraint { kind: Kind::First, expr: Local(2) },
        Constraint { kind: Kind::Transition, expr: sub(sub(Next(2), Local(2)), Const(1)) },
    ];
    let mut rows = vec![vec![fe(x0), fe(x1), F::ZERO]];
    for i in 1..n { let p = rows[i - 1].clone(); rows.push(vec![p[1], p[0] + p[1], p[2] + F::ONE]) }
    let pis = vec![fe(x0), fe(x1), rows[n - 1][1]];
    Built { spec: Arc::new(FamSpec { name: "fib3".into(), ncols: 3, npi: 3, degree: 2, cons, lookups: vec![], ctl: false }),
            rows, pis, cols: vec![(0, "state"), (2, "counter")] }
}

pub fn build_unconstrained(r: &mut Rng, n: usize) -> Built {
    let rows = (0..n).map(|_| vec![rf(r), rf(r)]).collect();
    Built { spec: Arc::new(FamSpec { name: "unconstrained".into(), ncols: 2, npi: 0, degree: 0, cons: vec![], lookups: vec![], ctl: false }),
            rows, pis: vec![], cols: vec![(0, "free"), (1, "free")] }
}

/// `always` constraints that read the next row: enforced on the wrap-around row too.
/// cyclic = true: constant column (satisfied everywhere); false: a counter (violated on the wrap-around row only)
pub fn build_always_wrap(n: usize, cyclic: bool, degree: usize) -> Built {
    let step = if cyclic { 0 } else { 1 };
    let cons = vec![
        Constraint { kind: Kind::First, expr: sub(Local(0), Const(5)) },
        Constraint { kind: Kind::Always, expr: sub(sub(Next(0), Local(0)), Const(step)) },
    ];
    let rows = (0..n).map(|i| vec![fe(5 + step * i as u64)]).collect();
    Built { spec: Arc::new(FamSpec { name: format!("alwayswrap{}d{}", if cyclic { "C" } else { "N" }, degree), ncols: 1, npi: 0, degree, cons, lookups: vec![], ctl: false }),
            rows, pis: vec![], cols: vec![(0, "state")] }
}

fn monomial(r: &mut Rng, deg: usize, avail: &[usize], npub: usize) -> Expr {
    let coef = if r.coin() { 1 + r.below(7) } else { r.next_u64() % P };
    let mut e = Const(coef);
    for _ in 0..deg { e = mul(e, Local(*r.pick(avail))) }
    if npub > 0 && r.below(3) == 0 { e = mul(e, Pub(r.below(npub as u64) as usize)) }
    e
}

/// random recurrence: state columns with `next = f(local, publics)` of degree <= d, optionally a
/// derived column (an `always` product constraint) and a free input column (read by transitions
/// only, so that its last-row cell matters for the wrap-around instance alone).
pub fn build_random(r: &mut Rng, ncols: usize, npi: usize, d: usize, n: usize) -> Built {
    assert!(d >= 1);
    let mut ncols_left = ncols;
    let free = if ncols >= 3 && r.below(3) != 0 { ncols_left -= 1; Some(ncols_left) } else { None };
    let derived = if ncols_left >= 2 && d >= 2 && r.coin() { ncols_left -= 1; Some(ncols_left) } else { None };
    let state: Vec<usize> = (0..ncols_left).collect();
    let mut avail = state.clone();
    if let Some(u) = free { avail.push(u) }
    let mut avail_f = avail.clone();
    if let Some(k) = derived { avail_f.push(k) }
    let mut cons = vec![];
    // public inputs 0..nf are initial values (they may also occur inside the recurrences);
    // public inputs nf.. are last-row values, only known once the trace exists
    let nf = npi.min(state.len());
    // transitions
    let mut fs: Vec<Expr> = vec![];
    for (si, &_c) in state.iter().enumerate() {
        let mut f = Const(r.below(9));
        let terms = 1 + r.below(3) as usize;
        for t in 0..terms {
            let deg = if si == 0 && t == 0 { d } else { 1 + r.below(d as u64) as usize };
            let mut m = monomial(r, deg, &avail_f, nf);
            if si == 0 && t == 0 {
                if let Some(u) = free { // make sure the free column is read
                    m = if d >= 2 { mul(monomial(r, d - 1, &avail_f, 0), Local(u)) } else { mul(Const(3), Local(u)) };
                }
            }
            f = add(f, m);
        }
        debug_assert!(f.degree() <= d);
        fs.push(f);
    }
    for (si, &c) in state.iter().enumerate() {
        cons.push(Constraint { kind: Kind::Transition, expr: sub(Next(c), fs[si].clone()) });
    }
    // derived column
    let g = derived.map(|k| {
        let gd = 2 + r.below((d - 1) as u64) as usize;
        let mut e = Local(*r.pick(&avail));
        for _ in 1..gd { e = mul(e, Local(*r.pick(&avail))) }
        if r.coin() { e = add(e, Const(r.below(100))) }
        cons.push(Constraint { kind: Kind::Always, expr: sub(Local(k), e.clone()) });
        (k, e)
    });
    // first row
    let init: Vec<F> = state.iter().map(|_| if r.coin() { fe(r.below(1000)) } else { rf(r) }).collect();
    let fl_deg = d.saturating_sub(1).max(1);
    for (si, &c) in state.iter().enumerate() {
        let target = if si < nf { Pub(si) } else { Const(init[si].to_canonical_u64()) };
        let mut e = sub(Local(c), target);
        if fl_deg >= 2 && r.below(3) == 0 { e = mul(e, add(Local(c), Const(1 + r.below(50)))) }
        cons.push(Constraint { kind: Kind::First, expr: e });
    }
    // trace
    let zero_free = r.below(3) == 0;
    let mut rows: Vec<Vec<F>> = vec![];
    let mut pis: Vec<F> = vec![F::ZERO; npi];
    for si in 0..nf { pis[si] = init[si] }
    // unused public inputs get random values; those for the last row are fixed below
    for j in nf..npi { pis[j] = rf(r) }
    let nlast = npi - nf;
    for i in 0..n {
        let mut row = vec![F::ZERO; ncols];
        for (si, &c) in state.iter().enumerate() {
            row[c] = if i == 0 { init[si] } else { fs[si].eval::<F>(&rows[i - 1], &[], &pis) };
        }
        // the free column: random, or IDENTICALLY ZERO (an unused column: a zero polynomial in every opening batch)
        if let Some(u) = free { row[u] = if zero_free { F::ZERO } else { rf(r) } }
        if let Some((k, e)) = &g { row[*k] = e.eval::<F>(&row, &[], &pis) }
        rows.push(row);
    }
    // last row
    for t in 0..nlast.min(state.len()) {
        let c = state[state.len() - 1 - t];
        pis[nf + t] = rows[n - 1][c];
        cons.push(Constraint { kind: Kind::Last, expr: sub(Local(c), Pub(nf + t)) });
    }
    if nlast == 0 || r.coin() {
        let c = state[0];
        let mut e = sub(Local(c), Const(rows[n - 1][c].to_canonical_u64()));
        if fl_deg >= 2 && r.coin() { if let Some(u) = free { e = mul(e, Local(u)) } }
        cons.push(Constraint { kind: Kind::Last, expr: e });
    }
    for c in &cons {
        let lim = match c.kind { Kind::First | Kind::Last => fl_deg, _ => d };
        assert!(c.expr.degree() <= lim, "family generator: degree {} > {} in {:?}", c.expr.degree(), lim, c);
    }
    let mut cols = vec![(state[0], "state")];
    if state.len() > 1 { cols.push((state[state.len() - 1], "state")) }
    if let Some((k, _)) = &g { cols.push((*k, "derived")) }
    if let Some(u) = free { cols.push((u, "free")) }
    let spec = FamSpec { name: format!("rnd{}x{}d{}", ncols, npi, d), ncols, npi, degree: d, cons, lookups: vec![], ctl: false };
    Built { spec: Arc::new(spec), rows, pis, cols }
}

// ------------------------------------------------------------------------------------------
// serde tree sweep (as in c03.rs)

pub fn tamper_sweep(w: &mut dyn Write, r: &mut Rng, tag: &str, fam: &str, root: &Value, stride: usize,
                    verdict: &dyn Fn(Value) -> String) -> usize {
    let mut ls = vec![];
    let mut arrs = vec![];
    crate::c03::leaves_pub(root, &mut vec![], &mut ls, &mut arrs);
    let mut n = 0;
    let off = r.below(stride as u64) as usize;
    for (li, path) in ls.iter().enumerate() {
        if stride > 1 && li % stride != off && li >= 24 { continue; }
        let mut cur = root.clone();
        let old = crate::c03::at_pub(&mut cur, path).as_u64().unwrap_or(0);
        let reps = [if old % P == P - 1 { 0 } else { old + 1 }, if old == 0 { 1 } else { 0 }, r.next_u64() % P];
        for (k, rep) in reps.iter().enumerate() {
            if *rep % P == old % P { continue; }
            let mut t = root.clone();
            *crate::c03::at_pub(&mut t, path) = Value::from(*rep);
            let o = verdict(t);
            let held = o != "ok";
            writeln!(w, "{tag} {fam} tamper:v{k}:{} = {} # {o}", path.join("/"), held as u8).unwrap();
            n += 1;
        }
    }
    for path in arrs.iter() {
        let len = crate::c03::at_pub(&mut root.clone(), path).as_array().unwrap().len();
        if len == 0 { continue; }
        for kind in ["drop", "empty", "dup"] {
            let mut t = root.clone();
            let a = crate::c03::at_pub(&mut t, path).as_array_mut().unwrap();
            match kind {
                "drop" => { a.pop(); }
                "empty" => a.clear(),
                _ => { let l = a.last().cloned().unwrap(); a.push(l) }
            }
            let o = verdict(t);
            let held = o != "ok";
            writeln!(w, "{tag} {fam} tamper:{kind}:{} = {} # {o}", path.join("/"), held as u8).unwrap();
            n += 1;
        }
    }
    n
}

pub fn json_verdict(drv: &Driver, cfg: &StarkConfig, v: Value) -> String {
    match serde_json::from_value::<Sp>(v) {
        Err(_) => "dec".into(),
        Ok(p) => (drv.verify)(cfg, p),
    }
}

// ------------------------------------------------------------------------------------------
// correspondence lines

pub fn ext2(x: FE) -> [u64; 2] { let a: [F; 2] = <FE as FieldExtension<D>>::to_basefield_array(&x); [a[0].to_canonical_u64(), a[1].to_canonical_u64()] }
pub fn rfe(r: &mut Rng) -> FE { <FE as FieldExtension<D>>::from_basefield_array([rf(r), rf(r)]) }
fn join(v: &[u64]) -> String { v.iter().map(|x| x.to_string()).collect::<Vec<_>>().join(" ") }

fn sat_line(w: &mut dyn Write, b: &Built, rows: &[Vec<F>], pis: &[F]) {
    let mut a = b.spec.encode();
    a.push(pis.len() as u64);
    a.extend(pis.iter().map(|x| x.to_canonical_u64()));
    a.push(rows.len() as u64);
    for r in rows { a.extend(r.iter().map(|x| x.to_canonical_u64())) }
    writeln!(w, "sat {} = {}", join(&a), b.spec.violated(rows, pis).is_none() as u8).unwrap();
}

fn l0last_lines(w: &mut dyn Write, r: &mut Rng, count: usize) -> usize {
    let mut n = 0;
    for log_n in 0..=12usize {
        let g = F::primitive_root_of_unity(log_n);
        // boundary points: 0, 1 (inverse of zero -> panic), subgroup elements, g^-1
        let mut pts: Vec<F> = vec![F::ZERO, F::ONE, F::TWO, g, g.inverse(), g * g, F::NEG_ONE];
        for _ in 0..count { pts.push(rf(r)) }
        for x in pts {
            let res = catch_unwind(AssertUnwindSafe(|| starky::verif_hooks::eval_l_0_and_l_last(log_n, x)));
            let s = match res { Ok((a, b)) => format!("{} {}", a.to_canonical_u64(), b.to_canonical_u64()), Err(_) => "panic".into() };
            writeln!(w, "l0lastb {} {} = {}", log_n, x.to_canonical_u64(), s).unwrap();
            n += 1;
        }
        let mut epts: Vec<FE> = vec![feb(g), feb(g.inverse()), FE::ONE, FE::ZERO];
        for _ in 0..count { epts.push(rfe(r)) }
        for x in epts {
            let res = catch_unwind(AssertUnwindSafe(|| starky::verif_hooks::eval_l_0_and_l_last(log_n, x)));
            let s = match res { Ok((a, b)) => join(&[ext2(a), ext2(b)].concat()), Err(_) => "panic".into() };
            writeln!(w, "l0last {} {} = {}", log_n, join(&ext2(x)), s).unwrap();
            n += 1;
        }
    }
    n
}

/// raw ConstraintConsumer: `consumer nalpha alphas(ext).. zlast l0 llast m (kind c)*m = accs`
fn consumer_lines(w: &mut dyn Write, r: &mut Rng, count: usize) -> usize {
    for _ in 0..count {
        let na = r.below(4) as usize;
        let m = r.below(9) as usize;
        let small = r.below(4) == 0;
        let mut g = |r: &mut Rng| if small { feb(fe(r.below(3))) } else { rfe(r) };
        let alphas: Vec<FE> = (0..na).map(|_| g(r)).collect();
        let (zl, l0, ll) = (g(r), g(r), g(r));
        let items: Vec<(u64, FE)> = (0..m).map(|_| (r.below(4), g(r))).collect();
        let mut a: Vec<u64> = vec![na as u64];
        for x in &alphas { a.extend(ext2(*x)) }
        a.extend(ext2(zl)); a.extend(ext2(l0)); a.extend(ext2(ll));
        a.push(m as u64);
        for (k, c) in &items { a.push(*k); a.extend(ext2(*c)) }
        let mut cons = ConstraintConsumer::<FE>::new(alphas.clone(), zl, l0, ll);
        for (k, c) in &items {
            match k { 0 => cons.constraint_first_row(*c), 1 => cons.constraint_last_row(*c), 2 => cons.constraint_transition(*c), _ => cons.constraint(*c) }
        }
        let acc: Vec<u64> = cons.accumulators().into_iter().flat_map(ext2).collect();
        writeln!(w, "consumer {} = {}", join(&a), join(&acc)).unwrap();
    }
    count
}

/// `vanish degree_bits zeta(2) nalpha alphas.. <cs> npi pis.. local(2 each).. next(2 each).. = accs`
fn vanish_line(w: &mut dyn Write, drv: &Driver, degree_bits: usize, zeta: FE, alphas: &[F], pis: &[F], lv: &[FE], nv: &[FE]) {
    let mut a: Vec<u64> = vec![degree_bits as u64];
    a.extend(ext2(zeta));
    a.push(alphas.len() as u64);
    a.extend(alphas.iter().map(|x| x.to_canonical_u64()));
    a.extend(drv.spec.encode());
    a.push(pis.len() as u64);
    a.extend(pis.iter().map(|x| x.to_canonical_u64()));
    for x in lv { a.extend(ext2(*x)) }
    for x in nv { a.extend(ext2(*x)) }
    let s = match (drv.vanish)(degree_bits, zeta, alphas, pis, lv, nv) {
        Some(acc) => join(&acc.into_iter().flat_map(ext2).collect::<Vec<_>>()),
        None => "panic".into(),
    };
    writeln!(w, "vanish {} = {}", join(&a), s).unwrap();
}

/// the verifier's algebraic check on a real proof:
/// `starkid degree_bits qdf zeta(2) nalpha alphas.. <cs> npi pis.. local.. next.. nq quotient openings.. = 1|0`
/// result 1 unless the real verifier fails with the quotient-identity error.
fn starkid_line(w: &mut dyn Write, drv: &Driver, cfg: &StarkConfig, p: &Sp, verdict: &str) -> bool {
    if p.proof.openings.local_values.len() != drv.spec.ncols || p.proof.openings.next_values.len() != drv.spec.ncols
        || p.public_inputs.len() != drv.spec.npi { return false; }
    let Some((alphas, zeta)) = (drv.challenges)(cfg, p) else { return false };
    let degree_bits = match catch_unwind(AssertUnwindSafe(|| p.proof.recover_degree_bits(cfg))) { Ok(d) => d, Err(_) => return false };
    let qdf = if drv.spec.degree == 0 { 0 } else { (drv.spec.degree - 1).max(1) };
    let q: Vec<FE> = p.proof.openings.quotient_polys.clone().unwrap_or_default();
    if q.len() != qdf * alphas.len() { return false; }
    let mut a: Vec<u64> = vec![degree_bits as u64, qdf as u64];
    a.extend(ext2(zeta));
    a.push(alphas.len() as u64);
    a.extend(alphas.iter().map(|x| x.to_canonical_u64()));
    a.extend(drv.spec.encode());
    a.push(p.public_inputs.len() as u64);
    a.extend(p.public_inputs.iter().map(|x| x.to_canonical_u64()));
    for x in &p.proof.openings.local_values { a.extend(ext2(*x)) }
    for x in &p.proof.openings.next_values { a.extend(ext2(*x)) }
    a.push(q.len() as u64);
    for x in &q { a.extend(ext2(*x)) }
    writeln!(w, "starkid {} = {}", join(&a), (verdict != "err:quotient") as u8).unwrap();
    true
}

/// Variants of an accepted proof that differ in which optional parts are present and how long the parts are
/// (none of them equals the proof itself).
fn shape_variants(p: &Sp, r: &mut Rng) -> Vec<(String, Sp)> {
    use plonky2::hash::merkle_tree::MerkleCap;
    let mut out: Vec<(String, Sp)> = vec![];
    let cap = p.proof.trace_cap.clone();
    // a cap of another length: half of it, or twice a single entry
    let half = |c: &MerkleCap<F, <C as GenericConfig<D>>::Hasher>| if c.0.len() >= 2 { MerkleCap(c.0[..c.0.len() / 2].to_vec()) }
                                                                   else { MerkleCap(c.0.iter().chain(c.0.iter()).cloned().collect()) };
    let some_ext: Vec<FE> = p.proof.openings.local_values.clone();
    // quotient commitment x quotient openings
    for qc in 0..4usize {
        for qo in 0..4usize {
            if qc == 0 && qo == 0 { continue; }
            let mut q = p.clone();
            let orig_cap = p.proof.quotient_polys_cap.clone();
            q.proof.quotient_polys_cap = match qc { 0 => orig_cap, 1 => if orig_cap.is_some() { None } else { Some(cap.clone()) },
                                                     2 => Some(half(orig_cap.as_ref().unwrap_or(&cap))),
                                                     _ => Some(MerkleCap(orig_cap.as_ref().unwrap_or(&cap).0.iter().chain(cap.0.iter()).cloned().collect())) };
            let orig_q = p.proof.openings.quotient_polys.clone();
            q.proof.openings.quotient_polys = match qo { 0 => orig_q, 1 => if orig_q.is_some() { None } else { Some(some_ext.clone()) },
                                                          2 => Some(vec![]),
                                                          _ => { let mut v = orig_q.unwrap_or_default(); if v.is_empty() || r.coin() { v.push(FE::ONE) } else { v.pop(); } Some(v) } };
            out.push((format!("quotcap{qc}-quot{qo}"), q));
        }
    }
    // auxiliary parts
    for k in 0..7usize {
        let mut q = p.clone();
        let has = p.proof.auxiliary_polys_cap.is_some();
        match k {
            0 => q.proof.auxiliary_polys_cap = if has { None } else { Some(cap.clone()) },
            1 => q.proof.openings.auxiliary_polys = if p.proof.openings.auxiliary_polys.is_some() { None } else { Some(some_ext.clone()) },
            2 => q.proof.openings.auxiliary_polys_next = if p.proof.openings.auxiliary_polys_next.is_some() { None } else { Some(vec![]) },
            3 => q.proof.openings.ctl_zs_first = if p.proof.openings.ctl_zs_first.is_some() { None } else { Some(vec![F::ONE]) },
            4 => { q.proof.auxiliary_polys_cap = if has { None } else { Some(cap.clone()) };
                   q.proof.openings.auxiliary_polys = if has { None } else { Some(vec![]) };
                   q.proof.openings.auxiliary_polys_next = if has { None } else { Some(vec![]) }; }
            5 => { if let Some(v) = q.proof.openings.auxiliary_polys.as_mut() { v.push(FE::ONE) } else { q.proof.openings.ctl_zs_first = Some(vec![]) } }
            _ => { if let Some(c) = q.proof.auxiliary_polys_cap.as_mut() { *c = half(c) } else { q.proof.auxiliary_polys_cap = Some(half(&cap)) } }
        }
        out.push((format!("aux{k}"), q));
    }
    // mandatory parts
    for k in 0..7usize {
        let mut q = p.clone();
        match k {
            0 => { q.proof.openings.local_values.pop(); }
            1 => q.proof.openings.next_values.push(FE::ZERO),
            2 => q.proof.trace_cap = half(&cap),
            3 => q.public_inputs.push(F::ZERO),
            4 => { if q.public_inputs.pop().is_none() { q.proof.openings.local_values.push(FE::ZERO) } }
            5 => q.proof.opening_proof.query_round_proofs.clear(),
            _ => { for qr in q.proof.opening_proof.query_round_proofs.iter_mut().take(1) { qr.initial_trees_proof.evals_proofs.clear(); } }
        }
        out.push((format!("part{k}"), q));
    }
    out
}

// ------------------------------------------------------------------------------------------
// the C09 cases of one (family, configuration)

fn prove_verify(drv: &Driver, cfg: &StarkConfig, rows: &[Vec<F>], pis: &[F]) -> (String, String, Option<Sp>) {
    match (drv.prove)(cfg, rows, pis) {
        ProveOut::Proof(p) => { let v = (drv.verify)(cfg, (*p).clone()); ("proof".into(), v, Some(*p)) }
        ProveOut::Err(e) => (format!("err({})", e.chars().take(40).collect::<String>().replace(' ', "_")), "-".into(), None),
        ProveOut::Panic(s) => (s, "-".into(), None),
    }
}

fn family_cases(w: &mut dyn Write, r: &mut Rng, b: &Built, cname: &str, cfg: &StarkConfig, sweep_stride: usize, emit_sat: bool) -> usize {
    let drv = driver(b.spec.clone());
    let n = b.rows.len();
    let fam = format!("{}/n{}/{}", b.spec.name, n, cname);
    let mut cnt = 0;
    let lenient = b.spec.degree >= 1 && !(b.spec.degree - 1).max(1).is_power_of_two();
    // honest
    let sat0 = b.spec.violated(&b.rows, &b.pis).is_none();
    if emit_sat { sat_line(w, b, &b.rows, &b.pis); cnt += 1; }
    let (po, vo, proof) = prove_verify(&drv, cfg, &b.rows, &b.pis);
    let held = sat0 == (vo == "ok");
    writeln!(w, "c09 {fam} honest = {} # sat={} prover={po} verify={vo}", held as u8, sat0 as u8).unwrap();
    cnt += 1;
    // single-cell corruptions
    let interior = 1 + r.below((n - 2) as u64) as usize;
    let rowsel: Vec<(usize, &str)> = vec![(0, "first"), (interior, "interior"), (n - 2, "before-last"), (n - 1, "last/wrap-around")];
    for &(col, role) in &b.cols {
        for &(row, rname) in &rowsel {
            let mut rows = b.rows.clone();
            let delta = if r.coin() { F::ONE } else { rf(r) + F::ONE };
            rows[row][col] += if delta == F::ZERO { F::ONE } else { delta };
            let sat = b.spec.violated(&rows, &b.pis).is_none();
            if emit_sat && n <= 32 { sat_line(w, b, &rows, &b.pis); cnt += 1; }
            starky::verif_hooks::set_lenient_quotient_truncation(lenient);
            let (po, vo, p) = prove_verify(&drv, cfg, &rows, &b.pis);
            starky::verif_hooks::set_lenient_quotient_truncation(false);
            // satisfying (the cell was not constrained there): must verify; violating: no accepted proof
            let held = if sat { vo == "ok" } else { vo != "ok" };
            writeln!(w, "c09 {fam} corrupt:{rname}:{role}{col} = {} # row={row} col={col} sat={} prover={po} verify={vo}", held as u8, sat as u8).unwrap();
            cnt += 1;
            if let Some(p) = p { if n <= 32 && starkid_line(w, &drv, cfg, &p, &vo) { cnt += 1 } }
        }
    }
    // wrong public inputs (prover run on the honest trace with one public input changed)
    for j in 0..b.pis.len() {
        let mut pis = b.pis.clone();
        pis[j] += F::ONE;
        let sat = b.spec.violated(&b.rows, &pis).is_none();
        starky::verif_hooks::set_lenient_quotient_truncation(lenient);
        let (po, vo, _) = prove_verify(&drv, cfg, &b.rows, &pis);
        starky::verif_hooks::set_lenient_quotient_truncation(false);
        let held = if sat { vo == "ok" } else { vo != "ok" };
        writeln!(w, "c09 {fam} wrong-public-input:{j} = {} # sat={} prover={po} verify={vo}", held as u8, sat as u8).unwrap();
        cnt += 1;
    }
    // a prover that never commits to the quotient polynomials (quotient_polys_cap = None, quotient openings
    // fitted after zeta): for a violating trace and for the honest one alike the verifier must not accept,
    // the proof does not have the shape of a proof for a STARK with constraints
    if b.spec.degree >= 1 && b.spec.lookups.is_empty() && !b.spec.ctl && n >= 2 {
        let mut bad = b.rows.clone();
        let mut found = None;
        for _ in 0..8 {
            let (row, col) = (r.below(n as u64) as usize, b.cols[r.below(b.cols.len() as u64) as usize].0);
            bad[row][col] += F::ONE + fe(r.below(1 << 20));
            if b.spec.violated(&bad, &b.pis).is_some() { found = Some((row, col)); break; }
        }
        for (tag, rows) in [("violating", &bad), ("honest", &b.rows)] {
            if tag == "violating" && found.is_none() { continue; }
            let (po, vo) = match (drv.forge_uncommitted_quotient)(cfg, rows, &b.pis) {
                ProveOut::Proof(p) => ("proof".to_string(), (drv.verify)(cfg, *p)),
                ProveOut::Err(e) => (format!("err({})", e.chars().take(40).collect::<String>().replace(' ', "_")), "-".into()),
                ProveOut::Panic(s) => (s, "-".into()),
            };
            writeln!(w, "c09 {fam} forged-uncommitted-quotient:{tag} = {} # sat={} forger={po} verify={vo}",
                     (vo != "ok") as u8, (tag == "honest" && sat0) as u8).unwrap();
            cnt += 1;
        }
    }
    // an accepted proof presented with other public inputs; tamper sweep; algebraic identity line
    if let (Some(p), true) = (proof, vo == "ok") {
        for j in 0..p.public_inputs.len() {
            let mut q = p.clone();
            q.public_inputs[j] += F::ONE;
            let o = (drv.verify)(cfg, q);
            writeln!(w, "c09 {fam} accepted-proof-other-public-input:{j} = {} # {o}", (o != "ok") as u8).unwrap();
            cnt += 1;
        }
        if starkid_line(w, &drv, cfg, &p, "ok") { cnt += 1 }
        // presence / length variants of the optional parts: the shape verdict (Model/StarkShape.v) and the full verdict
        writeln!(w, "{}", (drv.shape_line)(cfg, &p)).unwrap();
        cnt += 1;
        for (name, q) in shape_variants(&p, r) {
            writeln!(w, "{}", (drv.shape_line)(cfg, &q)).unwrap();
            let o = (drv.verify)(cfg, q);
            writeln!(w, "c09 {fam} shape:{name} = {} # {o}", (o != "ok") as u8).unwrap();
            cnt += 2;
        }
        // openings tampered: the identity must fail (tie of the model's algebraic check)
        for k in 0..2usize {
            let mut q = p.clone();
            let which = r.below(b.spec.ncols as u64) as usize;
            if k == 0 { q.proof.openings.local_values[which] += FE::ONE } else { q.proof.openings.next_values[which] += FE::ONE }
            let o = (drv.verify)(cfg, q.clone());
            if starkid_line(w, &drv, cfg, &q, &o) { cnt += 1 }
        }
        // vanishing-polynomial evaluation on random extension points through Stark::eval_ext
        for _ in 0..2 {
            let lv: Vec<FE> = (0..b.spec.ncols).map(|_| rfe(r)).collect();
            let nv: Vec<FE> = (0..b.spec.ncols).map(|_| rfe(r)).collect();
            let alphas: Vec<F> = (0..cfg.num_challenges).map(|_| rf(r)).collect();
            let pis: Vec<F> = (0..b.spec.npi).map(|_| rf(r)).collect();
            vanish_line(w, &drv, n.trailing_zeros() as usize, rfe(r), &alphas, &pis, &lv, &nv);
            cnt += 1;
        }
        if sweep_stride > 0 {
            let root = serde_json::to_value(&p).unwrap();
            cnt += tamper_sweep(w, r, "c09", &fam, &root, sweep_stride, &|v| json_verdict(&drv, cfg, v));
        }
    }
    cnt
}

pub fn run(seed: u64, tier: &str, w: &mut dyn Write) -> usize {
    let mut r = Rng::new(seed ^ 0xC09);
    let thorough = tier == "thorough";
    let cfgs = stark_configs();
    let mut cnt = 0;
    cnt += l0last_lines(w, &mut r, if thorough { 12 } else { 4 });
    cnt += consumer_lines(w, &mut r, if thorough { 600 } else { 150 });
    let sizes: Vec<usize> = vec![3, 4, 5, 6, 7];
    let mut jobs: Vec<(Built, usize, usize)> = vec![]; // (family, config index, sweep stride; 0 = no sweep)
    let mut k = 0usize;
    let mut push = |b: Built, jobs: &mut Vec<(Built, usize, usize)>, r: &mut Rng, sweep: bool| {
        // admissible configurations for this family: constraint degree <= blowup + 1, cap fits the LDE
        let db = b.rows.len().trailing_zeros() as usize;
        let ok: Vec<usize> = (0..cfgs.len()).filter(|&i| {
            let f = &cfgs[i].1.fri_config;
            let qdf = if b.spec.degree == 0 { 0 } else { (b.spec.degree - 1).max(1) };
            b.spec.degree <= (1 << f.rate_bits) + 1 && (qdf == 0 || (qdf.next_power_of_two().trailing_zeros() as usize) <= f.rate_bits)
                && f.cap_height <= db + f.rate_bits
        }).collect();
        let ci = ok[(k + r.below(2) as usize) % ok.len()];
        k += 1;
        let stride = if !sweep { 0 } else if thorough { 1 } else { 37 };
        jobs.push((b, ci, stride));
    };
    // the in-repo examples re-implemented
    for (i, &lg) in sizes.iter().enumerate() {
        if !thorough && i % 2 == 1 { continue; }
        push(build_fib(1 << lg, r.below(100), 1 + r.below(100)), &mut jobs, &mut r, i == 0);
        push(build_fib3(1 << lg, r.next_u64() % P, r.next_u64() % P), &mut jobs, &mut r, false);
        push(build_unconstrained(&mut r, 1 << lg), &mut jobs, &mut r, i == 0);
    }
    for (i, &lg) in [3usize, 5].iter().enumerate() {
        for d in [1usize, 2, 3] {
            push(build_always_wrap(1 << lg, true, d), &mut jobs, &mut r, false);
            push(build_always_wrap(1 << lg, false, d), &mut jobs, &mut r, i == 0 && d == 2);
        }
    }
    // random recurrences over the instantiated shapes, degrees 1..3 (4 and 5 where blowup >= 4)
    let reps = if thorough { 3 } else { 1 };
    for rep in 0..reps {
        for (si, &(nc, np)) in SHAPES.iter().enumerate() {
            for d in [1usize, 2, 3, 4, 5] {
                if d >= 4 && (si + rep) % 3 != 0 { continue; }
                if !thorough && (si + d) % 2 == 1 && d < 4 { continue; }
                let lg = sizes[(si + d + rep) % sizes.len()];
                let b = build_random(&mut r, nc, np, d, 1 << lg);
                push(b, &mut jobs, &mut r, (si + d) % 7 == 0 && lg <= 5);
            }
        }
    }
    for (b, ci, stride) in jobs.iter() {
        let emit_sat = b.rows.len() <= 32;
        cnt += family_cases(w, &mut r, b, cfgs[*ci].0, &cfgs[*ci].1, *stride, emit_sat);
    }
    cnt
}

// ------------------------------------------------------------------------------------------
// C18, STARK entry point: structured malformations through verify_stark_proof

type Mut = (String, Box<dyn Fn(&mut Sp)>);

fn vec_muts<E: Clone + 'static>(out: &mut Vec<Mut>, name: &str, get: impl Fn(&mut Sp) -> Option<&mut Vec<E>> + Clone + 'static, extra: E) {
    let g = get.clone();
    out.push((format!("{name}: empty"), Box::new(move |p| { if let Some(v) = g(p) { v.clear() } })));
    let g = get.clone();
    out.push((format!("{name}: drop last"), Box::new(move |p| { if let Some(v) = g(p) { v.pop(); } })));
    let g = get.clone();
    out.push((format!("{name}: duplicate last"), Box::new(move |p| { if let Some(v) = g(p) { if let Some(l) = v.last().cloned() { v.push(l) } } })));
    let g = get.clone();
    out.push((format!("{name}: one more"), Box::new(move |p| { if let Some(v) = g(p) { v.push(extra.clone()) } })));
}

pub fn stark_mutations(nrounds: usize, nsteps: usize, noracles: usize) -> Vec<Mut> {
    use plonky2::hash::merkle_tree::MerkleCap;
    let mut m: Vec<Mut> = vec![];
    let h0 = HashOut::<F>::ZERO;
    let e0 = FE::ZERO;
    let cap3 = || MerkleCap(vec![HashOut::<F>::ZERO; 3]);
    vec_muts(&mut m, "trace_cap", |p: &mut Sp| Some(&mut p.proof.trace_cap.0), h0);
    m.push(("trace_cap: length 3".into(), Box::new(move |p| p.proof.trace_cap = cap3())));
    m.push(("trace_cap: length 0".into(), Box::new(|p| p.proof.trace_cap.0.clear())));
    vec_muts(&mut m, "auxiliary_polys_cap", |p: &mut Sp| p.proof.auxiliary_polys_cap.as_mut().map(|c| &mut c.0), h0);
    m.push(("auxiliary_polys_cap: Some<->None".into(), Box::new(|p| {
        p.proof.auxiliary_polys_cap = match &p.proof.auxiliary_polys_cap { Some(_) => None, None => Some(p.proof.trace_cap.clone()) }
    })));
    m.push(("auxiliary_polys_cap: length 3".into(), Box::new(move |p| p.proof.auxiliary_polys_cap = Some(cap3()))));
    vec_muts(&mut m, "quotient_polys_cap", |p: &mut Sp| p.proof.quotient_polys_cap.as_mut().map(|c| &mut c.0), h0);
    m.push(("quotient_polys_cap: Some<->None".into(), Box::new(|p| {
        p.proof.quotient_polys_cap = match &p.proof.quotient_polys_cap { Some(_) => None, None => Some(p.proof.trace_cap.clone()) }
    })));
    m.push(("quotient_polys_cap: length 3".into(), Box::new(move |p| p.proof.quotient_polys_cap = Some(cap3()))));
    vec_muts(&mut m, "openings.local_values", |p: &mut Sp| Some(&mut p.proof.openings.local_values), e0);
    vec_muts(&mut m, "openings.next_values", |p: &mut Sp| Some(&mut p.proof.openings.next_values), e0);
    vec_muts(&mut m, "openings.auxiliary_polys", |p: &mut Sp| p.proof.openings.auxiliary_polys.as_mut(), e0);
    vec_muts(&mut m, "openings.auxiliary_polys_next", |p: &mut Sp| p.proof.openings.auxiliary_polys_next.as_mut(), e0);
    vec_muts(&mut m, "openings.quotient_polys", |p: &mut Sp| p.proof.openings.quotient_polys.as_mut(), e0);
    vec_muts(&mut m, "openings.ctl_zs_first", |p: &mut Sp| p.proof.openings.ctl_zs_first.as_mut(), F::ZERO);
    // one element MOVED between two opening vectors (the batches keep their total length)
    fn sopening(p: &mut Sp, k: usize) -> Option<&mut Vec<FE>> {
        let o = &mut p.proof.openings;
        match k { 0 => Some(&mut o.local_values), 1 => Some(&mut o.next_values), 2 => o.auxiliary_polys.as_mut(), 3 => o.auxiliary_polys_next.as_mut(), _ => o.quotient_polys.as_mut() }
    }
    const SNAMES: [&str; 5] = ["local_values", "next_values", "auxiliary_polys", "auxiliary_polys_next", "quotient_polys"];
    for a in 0..5usize {
        for b in 0..5usize {
            if a == b { continue; }
            m.push((format!("openings: move last of {} to {}", SNAMES[a], SNAMES[b]), Box::new(move |p| {
                let x = match sopening(p, a) { Some(v) => v.pop(), None => None };
                if let (Some(x), Some(v)) = (x, sopening(p, b)) { v.push(x) }
            })));
        }
    }
    for (nm, len) in [("Some(empty)", 0usize), ("Some(1 element)", 1), ("Some(3 elements)", 3)] {
        m.push((format!("openings.auxiliary_polys: Some<->None / {nm}"), Box::new(move |p| {
            p.proof.openings.auxiliary_polys = match &p.proof.openings.auxiliary_polys { Some(_) => None, None => Some(vec![FE::ZERO; len]) }
        })));
        m.push((format!("openings.auxiliary_polys_next: Some<->None / {nm}"), Box::new(move |p| {
            p.proof.openings.auxiliary_polys_next = match &p.proof.openings.auxiliary_polys_next { Some(_) => None, None => Some(vec![FE::ZERO; len]) }
        })));
        m.push((format!("openings.auxiliary_polys and _next: Some<->None / {nm}"), Box::new(move |p| {
            p.proof.openings.auxiliary_polys = match &p.proof.openings.auxiliary_polys { Some(_) => None, None => Some(vec![FE::ZERO; len]) };
            p.proof.openings.auxiliary_polys_next = match &p.proof.openings.auxiliary_polys_next { Some(_) => None, None => Some(vec![FE::ZERO; len]) };
        })));
        m.push((format!("openings.quotient_polys: Some<->None / {nm}"), Box::new(move |p| {
            p.proof.openings.quotient_polys = match &p.proof.openings.quotient_polys { Some(_) => None, None => Some(vec![FE::ZERO; len]) }
        })));
        m.push((format!("openings.ctl_zs_first: Some<->None / {nm}"), Box::new(move |p| {
            p.proof.openings.ctl_zs_first = match &p.proof.openings.ctl_zs_first { Some(_) => None, None => Some(vec![F::ZERO; len]) }
        })));
    }
    m.push(("all auxiliary Options flipped together (cap, openings, next)".into(), Box::new(|p| {
        let some = p.proof.auxiliary_polys_cap.is_some();
        p.proof.auxiliary_polys_cap = if some { None } else { Some(p.proof.trace_cap.clone()) };
        p.proof.openings.auxiliary_polys = if some { None } else { Some(vec![FE::ZERO; 2]) };
        p.proof.openings.auxiliary_polys_next = if some { None } else { Some(vec![FE::ZERO; 2]) };
    })));
    vec_muts(&mut m, "public_inputs", |p: &mut Sp| Some(&mut p.public_inputs), F::ZERO);
    vec_muts(&mut m, "final_poly", |p: &mut Sp| Some(&mut p.proof.opening_proof.final_poly.coeffs), e0);
    m.push(("commit_phase_merkle_caps: empty".into(), Box::new(|p| p.proof.opening_proof.commit_phase_merkle_caps.clear())));
    m.push(("commit_phase_merkle_caps: drop last".into(), Box::new(|p| { p.proof.opening_proof.commit_phase_merkle_caps.pop(); })));
    m.push(("commit_phase_merkle_caps: duplicate last".into(), Box::new(|p| {
        let v = &mut p.proof.opening_proof.commit_phase_merkle_caps;
        if let Some(l) = v.last().cloned() { v.push(l) }
    })));
    m.push(("commit_phase_merkle_caps: one more".into(), Box::new(|p| {
        let c = p.proof.trace_cap.clone();
        p.proof.opening_proof.commit_phase_merkle_caps.push(c)
    })));
    for ci in 0..nsteps {
        vec_muts(&mut m, &format!("commit cap {ci}"), move |p: &mut Sp| p.proof.opening_proof.commit_phase_merkle_caps.get_mut(ci).map(|c| &mut c.0), h0);
        m.push((format!("commit cap {ci}: length 3"), Box::new(move |p| {
            if let Some(c) = p.proof.opening_proof.commit_phase_merkle_caps.get_mut(ci) { c.0 = vec![HashOut::<F>::ZERO; 3] }
        })));
    }
    m.push(("query_round_proofs: empty".into(), Box::new(|p| p.proof.opening_proof.query_round_proofs.clear())));
    m.push(("query_round_proofs: drop last".into(), Box::new(|p| { p.proof.opening_proof.query_round_proofs.pop(); })));
    m.push(("query_round_proofs: duplicate last".into(), Box::new(|p| {
        let v = &mut p.proof.opening_proof.query_round_proofs;
        if let Some(l) = v.last().cloned() { v.push(l) }
    })));
    let mut rounds = vec![0usize];
    if nrounds > 1 { rounds.push(nrounds - 1) }
    for ri in rounds {
        m.push((format!("round {ri} evals_proofs: empty"), Box::new(move |p| {
            if let Some(q) = p.proof.opening_proof.query_round_proofs.get_mut(ri) { q.initial_trees_proof.evals_proofs.clear() }
        })));
        m.push((format!("round {ri} evals_proofs: drop last"), Box::new(move |p| {
            if let Some(q) = p.proof.opening_proof.query_round_proofs.get_mut(ri) { q.initial_trees_proof.evals_proofs.pop(); }
        })));
        m.push((format!("round {ri} evals_proofs: drop first"), Box::new(move |p| {
            if let Some(q) = p.proof.opening_proof.query_round_proofs.get_mut(ri) { if !q.initial_trees_proof.evals_proofs.is_empty() { q.initial_trees_proof.evals_proofs.remove(0); } }
        })));
        m.push((format!("round {ri} evals_proofs: duplicate last"), Box::new(move |p| {
            if let Some(q) = p.proof.opening_proof.query_round_proofs.get_mut(ri) {
                let v = &mut q.initial_trees_proof.evals_proofs;
                if let Some(l) = v.last().cloned() { v.push(l) }
            }
        })));
        for oi in 0..noracles {
            vec_muts(&mut m, &format!("round {ri} oracle {oi} evals"), move |p: &mut Sp| {
                p.proof.opening_proof.query_round_proofs.get_mut(ri).and_then(|q| q.initial_trees_proof.evals_proofs.get_mut(oi)).map(|e| &mut e.0)
            }, F::ZERO);
            vec_muts(&mut m, &format!("round {ri} oracle {oi} siblings"), move |p: &mut Sp| {
                p.proof.opening_proof.query_round_proofs.get_mut(ri).and_then(|q| q.initial_trees_proof.evals_proofs.get_mut(oi)).map(|e| &mut e.1.siblings)
            }, h0);
            for len in [33usize, 40, 70, 200] {
                m.push((format!("round {ri} oracle {oi} siblings: extended to length {len}"), Box::new(move |p| {
                    if let Some(e) = p.proof.opening_proof.query_round_proofs.get_mut(ri).and_then(|q| q.initial_trees_proof.evals_proofs.get_mut(oi)) {
                        while e.1.siblings.len() < len { e.1.siblings.push(HashOut::<F>::ZERO) }
                    }
                })));
            }
        }
        m.push((format!("round {ri} steps: empty"), Box::new(move |p| {
            if let Some(q) = p.proof.opening_proof.query_round_proofs.get_mut(ri) { q.steps.clear() }
        })));
        m.push((format!("round {ri} steps: drop last"), Box::new(move |p| {
            if let Some(q) = p.proof.opening_proof.query_round_proofs.get_mut(ri) { q.steps.pop(); }
        })));
        m.push((format!("round {ri} steps: duplicate last"), Box::new(move |p| {
            if let Some(q) = p.proof.opening_proof.query_round_proofs.get_mut(ri) { if let Some(l) = q.steps.last().cloned() { q.steps.push(l) } }
        })));
        for si in 0..nsteps {
            vec_muts(&mut m, &format!("round {ri} step {si} evals"), move |p: &mut Sp| {
                p.proof.opening_proof.query_round_proofs.get_mut(ri).and_then(|q| q.steps.get_mut(si)).map(|s| &mut s.evals)
            }, e0);
            vec_muts(&mut m, &format!("round {ri} step {si} siblings"), move |p: &mut Sp| {
                p.proof.opening_proof.query_round_proofs.get_mut(ri).and_then(|q| q.steps.get_mut(si)).map(|s| &mut s.merkle_proof.siblings)
            }, h0);
        }
    }
    // consistently shorter / longer Merkle paths in every round and oracle (a different claimed trace length)
    for k in [1usize, 2, 3, 100] {
        m.push((format!("every initial Merkle path shortened by {k} (claimed degree_bits smaller)"), Box::new(move |p| {
            for q in p.proof.opening_proof.query_round_proofs.iter_mut() {
                for e in q.initial_trees_proof.evals_proofs.iter_mut() { for _ in 0..k { e.1.siblings.pop(); } }
            }
        })));
    }
    m.push(("every initial Merkle path emptied (lde_bits = cap_height)".into(), Box::new(|p| {
        for q in p.proof.opening_proof.query_round_proofs.iter_mut() {
            for e in q.initial_trees_proof.evals_proofs.iter_mut() { e.1.siblings.clear() }
        }
    })));
    m.push(("round 0 oracle 0 Merkle path emptied only".into(), Box::new(|p| {
        if let Some(e) = p.proof.opening_proof.query_round_proofs.get_mut(0).and_then(|q| q.initial_trees_proof.evals_proofs.get_mut(0)) { e.1.siblings.clear() }
    })));
    for k in [1usize, 30] {
        m.push((format!("every initial Merkle path extended by {k}"), Box::new(move |p| {
            for q in p.proof.opening_proof.query_round_proofs.iter_mut() {
                for e in q.initial_trees_proof.evals_proofs.iter_mut() { for _ in 0..k { e.1.siblings.push(HashOut::<F>::ZERO) } }
            }
        })));
    }
    m
}

/// base proofs for the malformed-input enumeration: (name, family, config)
pub fn c18_bases(r: &mut Rng, tier: &str) -> Vec<(String, Built, StarkConfig)> {
    use FriReductionStrategy::*;
    let cfgs = stark_configs();
    let mk = |nch: usize, f: FriConfig| StarkConfig::new(20, nch, f);
    let mut v = vec![
        ("fib/n16/r1c1a1".to_string(), build_fib(16, 2, 7), cfgs[0].1.clone()),
        // rate_bits 3 with cap_height 0: paths shorter than 3 make `lde_bits - rate_bits` underflow
        ("fib/n8/r3c0".to_string(), build_fib(8, 1, 1), mk(2, fri(3, 0, 2, ConstantArityBits(1, 1), 4))),
        ("unconstrained/n8/r2c0fix".to_string(), build_unconstrained(r, 8), cfgs[1].1.clone()),
        // arity bits above final_poly_bits + 1: a degree read from a shortened Merkle path can be smaller than the arity,
        // where ConstantArityBits::reduction_arity_bits asserts
        ("fib/n64/r3c2a4f2".to_string(), build_fib(64, 3, 5), mk(2, fri(3, 2, 2, ConstantArityBits(4, 2), 4))),
        ("lookup2/n16/r1c1a1".to_string(), crate::c10::build_perm(r, 16, 2, 2, false), cfgs[0].1.clone()),
    ];
    if tier == "thorough" {
        v.push(("rnd4x2d3/n32/r3c2min".to_string(), build_random(r, 4, 2, 3, 32), cfgs[2].1.clone()));
        v.push(("lookup3/n8/r2c1a2".to_string(), crate::c10::build_perm(r, 8, 3, 3, true), cfgs[4].1.clone()));
        v.push(("fib3/n8/r1c4std".to_string(), build_fib3(8, 3, 4), cfgs[3].1.clone()));
    }
    v
}

pub fn run_c18stark(seed: u64, tier: &str, w: &mut dyn Write) -> usize {
    let mut r = Rng::new(seed ^ 0xC18_57A);
    let mut n = 0;
    for (name, b, cfg) in c18_bases(&mut r, tier) {
        let drv = driver(b.spec.clone());
        let p = match (drv.prove)(&cfg, &b.rows, &b.pis) {
            ProveOut::Proof(p) => *p,
            _ => { writeln!(w, "c18stark {name} 0 = err  # base proof could not be produced").unwrap(); n += 1; continue }
        };
        let out = |q: Sp| -> String { let o = (drv.verify)(&cfg, q); if o.starts_with("err") { "err".into() } else { o } };
        writeln!(w, "c18stark {name} 0 = {}  # unmodified", out(p.clone())).unwrap();
        n += 1;
        let fp = cfg.fri_params(b.rows.len().trailing_zeros() as usize);
        let noracles = p.proof.opening_proof.query_round_proofs[0].initial_trees_proof.evals_proofs.len();
        let base_json = serde_json::to_string(&p).unwrap();
        for (mi, (desc, f)) in stark_mutations(cfg.fri_config.num_query_rounds, fp.reduction_arity_bits.len(), noracles).iter().enumerate() {
            let mut q = p.clone();
            f(&mut q);
            if serde_json::to_string(&q).unwrap() == base_json { continue; }
            writeln!(w, "c18stark {name} {} = {}  # {}", mi + 1, out(q), desc).unwrap();
            n += 1;
        }
        // not a tampered honest proof but one built to be malformed: no quotient commitment, quotient openings
        // fitted after zeta (for the honest trace, so that only the shape is wrong), and presence / length variants
        if b.spec.degree >= 1 && b.spec.lookups.is_empty() && !b.spec.ctl {
            if let ProveOut::Proof(q) = (drv.forge_uncommitted_quotient)(&cfg, &b.rows, &b.pis) {
                writeln!(w, "c18stark {name} 9000 = {}  # built without quotient commitment: quotient_polys_cap None, quotient openings fitted after zeta", out(*q)).unwrap();
                n += 1;
            }
        }
        for (vi, (vname, q)) in shape_variants(&p, &mut r).into_iter().enumerate() {
            writeln!(w, "c18stark {name} {} = {}  # shape variant {vname}", 9001 + vi, out(q)).unwrap();
            n += 1;
        }
    }
    n
}
