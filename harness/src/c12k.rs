//! C12 with the Keccak-25 hasher (KeccakHash<25>): caps, proofs and verdicts, judged by the
//! independent Python oracle tools/spec_c12k.py (own Keccak-256).
//! Lines: kcap h n w leaves.. = cap bytes ; kprove h n w i leaves.. = sibling bytes ;
//!        kverify h n w i claimed(w) leaves.. = 1|0   (honest proof of position i, claimed leaf)
use std::io::Write;
use std::panic::{catch_unwind, AssertUnwindSafe};

use plonky2::hash::keccak::KeccakHash;
use plonky2::hash::merkle_proofs::verify_merkle_proof_to_cap;
use plonky2::hash::merkle_tree::MerkleTree;
use plonky2_field::goldilocks_field::GoldilocksField as F;
use plonky2_field::types::{Field, PrimeField64};

use crate::rng::*;

type K = KeccakHash<25>;

fn el(r: &mut Rng, b: &[u64]) -> F { F::from_noncanonical_u64(mixed_u64(r, b) % P) }

pub fn run(r: &mut Rng, tier: &str, w: &mut dyn Write) -> usize {
    let b = boundary_u64();
    let mut n = 0;
    let kmax = if tier == "thorough" { 7 } else { 4 };
    for k in 0..=kmax {
        for &width in &[1usize, 2, 3, 4, 5, 8, 9] {
            let nl = 1usize << k;
            let leaves: Vec<Vec<F>> = (0..nl).map(|_| (0..width).map(|_| el(r, &b)).collect()).collect();
            for h in 0..=k {
                if tier != "thorough" && h != 0 && h != k && r.below(3) != 0 { continue; }
                let tree = match catch_unwind(AssertUnwindSafe(|| MerkleTree::<F, K>::new(leaves.clone(), h))) { Ok(t) => t, Err(_) => continue };
                let mut args: Vec<u64> = vec![h as u64, nl as u64, width as u64];
                let flat: Vec<u64> = leaves.iter().flatten().map(|x| x.to_canonical_u64()).collect();
                let capb: Vec<String> = tree.cap.0.iter().flat_map(|d| d.0.iter().map(|x| x.to_string())).collect();
                let mut a = args.clone(); a.extend(&flat);
                writeln!(w, "kcap {} = {}", a.iter().map(|x| x.to_string()).collect::<Vec<_>>().join(" "), capb.join(" ")).unwrap();
                n += 1;
                let positions: Vec<usize> = if nl <= 8 { (0..nl).collect() } else { vec![0, nl - 1, r.below(nl as u64) as usize] };
                for i in positions {
                    let proof = tree.prove(i);
                    let sib: Vec<String> = proof.siblings.iter().flat_map(|d| d.0.iter().map(|x| x.to_string())).collect();
                    args = vec![h as u64, nl as u64, width as u64, i as u64];
                    let mut a = args.clone(); a.extend(&flat);
                    writeln!(w, "kprove {} = {}", a.iter().map(|x| x.to_string()).collect::<Vec<_>>().join(" "), sib.join(" ")).unwrap();
                    n += 1;
                    // claimed leaves: the committed one, and alterations of one element by +1, by a
                    // single bit in each byte position (low and high bytes), and another random leaf
                    let mut claims: Vec<Vec<F>> = vec![leaves[i].clone()];
                    for e in 0..width {
                        for bit in [0u32, 8, 16, 40, 56, 63] {
                            let mut c = leaves[i].clone();
                            let v = c[e].to_canonical_u64() ^ (1u64 << bit);
                            if v < P { c[e] = F::from_canonical_u64(v); claims.push(c); }
                        }
                    }
                    claims.push((0..width).map(|_| el(r, &b)).collect());
                    for c in claims {
                        let ok = matches!(catch_unwind(AssertUnwindSafe(|| verify_merkle_proof_to_cap::<F, K>(c.clone(), i, &tree.cap, &proof))), Ok(Ok(())));
                        let mut a = args.clone();
                        a.extend(c.iter().map(|x| x.to_canonical_u64()));
                        a.extend(&flat);
                        writeln!(w, "kverify {} = {}", a.iter().map(|x| x.to_string()).collect::<Vec<_>>().join(" "), ok as u8).unwrap();
                        n += 1;
                    }
                }
            }
        }
    }
    let _ = F::ZERO;
    n
}
