//! C05, batched variant (batch_fri): polynomials of different degrees in one oracle, one FRI proof.
//! Honest proofs must verify; a wrong opening, bad grinding and per-element edits under fixed
//! challenges must be rejected.  Lines `c05 b<shape> <case> = 1|0 # detail`.
use std::io::Write;
use std::panic::{catch_unwind, AssertUnwindSafe};

use plonky2::batch_fri::oracle::BatchFriOracle;
use plonky2::batch_fri::verifier::verify_batch_fri_proof;
use plonky2::field::extension::quadratic::QuadraticExtension;
use plonky2::field::goldilocks_field::GoldilocksField as F;
use plonky2::field::polynomial::PolynomialValues;
use plonky2::field::types::Field;
use plonky2::fri::proof::{FriChallenges, FriProof};
use plonky2::fri::reduction_strategies::FriReductionStrategy;
use plonky2::fri::structure::{FriBatchInfo, FriInstanceInfo, FriOpeningBatch, FriOpenings, FriOracleInfo, FriPolynomialInfo};
use plonky2::fri::{FriConfig, FriParams};
use plonky2::iop::challenger::Challenger;
use plonky2::util::timing::TimingTree;

use crate::corpus::*;
use crate::dsl::D;
use crate::rng::*;

type FE = QuadraticExtension<F>;

fn rand_f(r: &mut Rng) -> F { F::from_noncanonical_u64(r.next_u64() % P) }

fn code_of(res: std::thread::Result<anyhow::Result<()>>) -> u64 {
    match res {
        Err(_) => 8,
        Ok(Ok(())) => 1,
        Ok(Err(e)) => {
            let m = format!("{e}");
            if m.contains("proof of work") { 2 } else if m.contains("Number of query rounds") { 3 }
            else if m.contains("Invalid Merkle proof") { 4 } else if m.contains("old_eval") { 5 }
            else if m.contains("Final polynomial") { 6 } else if m.contains("Condition failed") { 0 } else { 9 }
        }
    }
}

/// flat dump read by Model/BatchFri.v (run_batchfriverify)
fn dump(o: &mut Vec<u64>, degree_bits: &[usize], instances: &[FriInstanceInfo<F, D>], openings: &[FriOpenings<F, D>],
        chs: &FriChallenges<F, D>, caps: &[plonky2::hash::merkle_tree::MerkleCap<F, H>], proof: &FriProof<F, H, D>, params: &FriParams) {
    use plonky2::field::types::PrimeField64;
    o.push(degree_bits.len() as u64);
    o.extend(degree_bits.iter().map(|x| *x as u64));
    o.push(instances.len() as u64);
    for inst in instances {
        o.push(inst.oracles.len() as u64);
        for or in &inst.oracles { o.extend([or.num_polys as u64, or.blinding as u64]); }
        o.push(inst.batches.len() as u64);
        for b in &inst.batches {
            ext(o, &b.point);
            o.push(b.polynomials.len() as u64);
            for p in &b.polynomials { o.extend([p.oracle_index as u64, p.polynomial_index as u64]); }
        }
    }
    o.push(openings.len() as u64);
    for op in openings {
        o.push(op.batches.len() as u64);
        for b in &op.batches { exts(o, &b.values); }
    }
    ext(o, &chs.fri_alpha);
    exts(o, &chs.fri_betas);
    o.push(chs.fri_pow_response.to_canonical_u64());
    o.push(chs.fri_query_indices.len() as u64);
    o.extend(chs.fri_query_indices.iter().map(|x| *x as u64));
    o.push(caps.len() as u64);
    for c in caps { cap(o, c); }
    dump_fri_proof(o, proof);
    dump_fri_params(o, params);
}

pub fn run(r: &mut Rng, tier: &str, w: &mut dyn Write) -> usize {
    let mut n = 0;
    let shapes = if tier == "thorough" { 12 } else { 3 };
    for si in 0..shapes {
        // strictly decreasing degrees k0 > k1 > k2, arities chosen so that each smaller degree is met
        // exactly at a layer boundary (as the prover requires)
        let k0 = 5 + r.below(if tier == "thorough" { 4 } else { 3 }) as usize;
        let a1 = 1 + r.below(2) as usize;
        let a2 = 1 + r.below(2) as usize;
        let a3 = 1usize;
        let k1 = k0 - a1;
        let k2 = k1 - a2;
        let arities = vec![a1, a2, a3];
        let params = FriParams {
            config: FriConfig { rate_bits: 1 + r.below(2) as usize, cap_height: r.below(2) as usize, proof_of_work_bits: r.below(4) as u32,
                                reduction_strategy: FriReductionStrategy::Fixed(arities.clone()), num_query_rounds: 3 + r.below(8) as usize },
            hiding: false, degree_bits: k0, reduction_arity_bits: arities.clone(),
        };
        let n1 = 1 + r.below(2) as usize; // polynomials of degree 2^k1
        let mut values = vec![PolynomialValues::new((0..1usize << k0).map(|_| rand_f(r)).collect())];
        for _ in 0..n1 { values.push(PolynomialValues::new((0..1usize << k1).map(|_| rand_f(r)).collect())); }
        values.push(PolynomialValues::new((0..1usize << k2).map(|_| rand_f(r)).collect()));
        let npoly = values.len();
        let nones: Vec<Option<&Vec<Vec<F>>>> = vec![None; npoly];
        let oracle = match catch_unwind(AssertUnwindSafe(|| BatchFriOracle::<F, C, D>::from_values(values.clone(), params.config.rate_bits, false, params.config.cap_height, &mut TimingTree::default(), &nones))) {
            Ok(o) => o, Err(_) => { writeln!(w, "c05 b{si} inadmissible-shape = - # oracle construction refused").unwrap(); continue }
        };
        let zeta = QuadraticExtension([rand_f(r), rand_f(r)]);
        let eta = QuadraticExtension([rand_f(r), rand_f(r)]);
        let mk = |idxs: Vec<usize>, two_points: bool| -> (FriInstanceInfo<F, D>, FriOpenings<F, D>) {
            let polys: Vec<FriPolynomialInfo> = idxs.iter().map(|&i| FriPolynomialInfo { oracle_index: 0, polynomial_index: i }).collect();
            let ev = |pt: FE| -> Vec<FE> { idxs.iter().map(|&i| oracle.polynomials[i].to_extension::<D>().eval(pt)).collect() };
            let mut batches = vec![FriBatchInfo { point: zeta, polynomials: polys.clone() }];
            let mut ob = vec![FriOpeningBatch { values: ev(zeta) }];
            if two_points { batches.push(FriBatchInfo { point: eta, polynomials: polys.clone() }); ob.push(FriOpeningBatch { values: ev(eta) }); }
            (FriInstanceInfo { oracles: vec![FriOracleInfo { num_polys: idxs.len(), blinding: false }], batches }, FriOpenings { batches: ob })
        };
        let (i0, o0) = mk(vec![0], true);
        let (i1, o1) = mk((1..=n1).collect(), r.coin());
        let (i2, o2) = mk(vec![npoly - 1], false);
        let instances = vec![i0, i1, i2];
        let openings = vec![o0, o1, o2];
        let degree_bits = [k0, k1, k2];
        let prove = |ops: &Vec<FriOpenings<F, D>>| -> Option<(FriProof<F, H, D>, FriChallenges<F, D>)> {
            let mut ch = Challenger::<F, H>::new();
            ch.observe_cap::<H>(&oracle.batch_merkle_tree.cap);
            for o in ops { ch.observe_openings(o); }
            let mut vch = ch.clone();
            let p = catch_unwind(AssertUnwindSafe(|| BatchFriOracle::prove_openings(&degree_bits, &instances, &[&oracle], &mut ch, &params, &mut TimingTree::default()))).ok()?;
            let c = vch.fri_challenges::<C, D>(&p.commit_phase_merkle_caps, &p.final_poly, p.pow_witness, k0, &params.config, None, None);
            Some((p, c))
        };
        let lim = if tier == "thorough" { 60 } else { 14 };
        let dumped = std::cell::Cell::new(0usize);
        let wcell = std::cell::RefCell::new(Vec::<String>::new());
        let verify = |ops: &Vec<FriOpenings<F, D>>, c: &FriChallenges<F, D>, p: &FriProof<F, H, D>| -> &'static str {
            let caps = [oracle.batch_merkle_tree.cap.clone()];
            let code = code_of(catch_unwind(AssertUnwindSafe(|| verify_batch_fri_proof::<F, C, D>(&degree_bits, &instances, ops, c, &caps, p, &params))));
            // the same call replayed by the Gallina model of the batch verifier (Model/BatchFri.v)
            if code != 8 && k0 <= 7 && dumped.get() < lim {
                let mut o = vec![];
                dump(&mut o, &degree_bits, &instances, ops, c, &caps, p, &params);
                wcell.borrow_mut().push(line("batchfriverify", &o, &code.to_string()));
                dumped.set(dumped.get() + 1);
            }
            match code { 1 => "ok", 8 => "panic", _ => "err" }
        };
        let (proof, chs) = match prove(&openings) { Some(x) => x, None => { writeln!(w, "c05 b{si} inadmissible-shape = - # batch prover refused").unwrap(); continue } };
        let v = verify(&openings, &chs, &proof);
        writeln!(w, "c05 b{si} batch-honest = {} # degrees {k0} {k1} {k2} arities {:?} polys {npoly} verdict {v}", (v == "ok") as u8, arities).unwrap();
        n += 1;
        // wrong opening of a polynomial of each degree, prover rerun
        for (inst_i, name) in [(0usize, "large"), (1, "middle"), (2, "small")] {
            let mut ops2: Vec<FriOpenings<F, D>> = openings.iter().map(|o| FriOpenings { batches: o.batches.iter().map(|b| FriOpeningBatch { values: b.values.clone() }).collect() }).collect();
            ops2[inst_i].batches[0].values[0] += FE::ONE;
            if let Some((p2, c2)) = prove(&ops2) {
                let v = verify(&ops2, &c2, &p2);
                writeln!(w, "c05 b{si} batch-wrong-opening-{name} = {} # verdict {v}", (v != "ok") as u8).unwrap();
                n += 1;
            }
            let v = verify(&ops2, &chs, &proof);
            writeln!(w, "c05 b{si} batch-wrong-opening-{name}-fixed-challenges = {} # verdict {v}", (v == "err") as u8).unwrap();
            n += 1;
        }
        // per-element edits under fixed challenges
        for t in 0..(if tier == "thorough" { 12 } else { 6 }) {
            let mut p2 = proof.clone();
            let qi = r.below(p2.query_round_proofs.len() as u64) as usize;
            let what;
            match t % 4 {
                0 => { let e = &mut p2.query_round_proofs[qi].initial_trees_proof.evals_proofs[0].0; let k = r.below(e.len() as u64) as usize; e[k] += F::ONE; what = "initial-leaf" }
                1 => { let s = &mut p2.query_round_proofs[qi].steps; let si2 = r.below(s.len() as u64) as usize; let k = r.below(s[si2].evals.len() as u64) as usize; s[si2].evals[k] += FE::ONE; what = "step-eval" }
                2 => { let k = r.below(p2.final_poly.coeffs.len() as u64) as usize; p2.final_poly.coeffs[k] += FE::ONE; what = "final-poly" }
                _ => { let s = &mut p2.query_round_proofs[qi].initial_trees_proof.evals_proofs[0].1.siblings; if s.is_empty() { continue } let k = r.below(s.len() as u64) as usize; s[k].elements[0] += F::ONE; what = "initial-sibling" }
            }
            let v = verify(&openings, &chs, &p2);
            writeln!(w, "c05 b{si} batch-fixed-challenges-edit-{what} = {} # verdict {v}", (v == "err") as u8).unwrap();
            n += 1;
        }
        // structural: fewer commit caps under fixed challenges must be an error, not a panic
        let mut p2 = proof.clone(); p2.commit_phase_merkle_caps.pop();
        let v = verify(&openings, &chs, &p2);
        writeln!(w, "c05 b{si} batch-fixed-challenges-drop-last-commit-cap = {} # verdict {v}", (v == "err") as u8).unwrap();
        n += 1;
        for l in wcell.borrow().iter() { writeln!(w, "{l}").unwrap(); n += 1; }
        // the same honest statement over a BLINDED batch oracle (salted leaves, params.hiding)
        {
            let params_h = FriParams { hiding: true, ..params.clone() };
            let res = catch_unwind(AssertUnwindSafe(|| {
                let oracle_h = BatchFriOracle::<F, C, D>::from_values(values.clone(), params.config.rate_bits, true, params.config.cap_height, &mut TimingTree::default(), &nones);
                let inst_h: Vec<FriInstanceInfo<F, D>> = instances.iter().map(|i| FriInstanceInfo {
                    oracles: i.oracles.iter().map(|o| FriOracleInfo { num_polys: o.num_polys, blinding: true }).collect(),
                    batches: i.batches.iter().map(|b| FriBatchInfo { point: b.point, polynomials: b.polynomials.clone() }).collect() }).collect();
                let mut ch = Challenger::<F, H>::new();
                ch.observe_cap::<H>(&oracle_h.batch_merkle_tree.cap);
                for o in &openings { ch.observe_openings(o); }
                let mut vch = ch.clone();
                let p = BatchFriOracle::prove_openings(&degree_bits, &inst_h, &[&oracle_h], &mut ch, &params_h, &mut TimingTree::default());
                let c = vch.fri_challenges::<C, D>(&p.commit_phase_merkle_caps, &p.final_poly, p.pow_witness, k0, &params_h.config, None, None);
                verify_batch_fri_proof::<F, C, D>(&degree_bits, &inst_h, &openings, &c, &[oracle_h.batch_merkle_tree.cap.clone()], &p, &params_h).map_err(|e| format!("{e}"))
            }));
            let (ok, v) = match res { Ok(Ok(())) => (1, "ok".to_string()), Ok(Err(e)) => (0, format!("err {e}")), Err(_) => (0, format!("panic@{}", panic_site())) };
            writeln!(w, "c05 b{si} batch-honest-blinded = {ok} # verdict {}", v.replace('\n', " ")).unwrap();
            n += 1;
        }
    }
    n
}
