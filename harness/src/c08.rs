//! C08: table lookups are provable exactly for pairs contained in the table.
//!
//! Lookup-specific corpus: 1..4 tables of sizes 1..600 (arbitrary u16 pairs, duplicate outputs,
//! repeated identical entries), numbers of lookups per table from 1 up to several rows' worth
//! (exact multiples of the slot count, partially filled rows, heavy repetition), under
//! configurations with different slot counts and different numbers of partial running-sum (SLDC)
//! polynomials.
//!   positives: prove + verify succeed and every lookup output equals the table's value;
//!   negatives (through `plonk::verif_knobs`, see c02.rs): pair of another table, altered output,
//!   input outside the table, altered multiplicity, altered table cell, altered padding slot
//!   x prover strategies -> no accepted proof.
//!
//! Lines
//!   c08 <case> <config> <kind> <strategy> = <1|0> # detail          (1 = property holds on the case)
//!   c08replay <config> = <1|0> # fixed minimal case: table {(1,10),(2,20)}, lookup of 2, public output claimed 999
//!   lkc <args> = <constraints>                                       (Model/C08Run.v replays check_lookup_constraints)
//!   clp <args> = <lookup polynomial values|fail>                     (Model/C08Run.v replays compute_lookup_polys)
use std::io::Write;
use std::panic::{catch_unwind, AssertUnwindSafe};

use plonky2::field::goldilocks_field::GoldilocksField as F;
use plonky2::field::types::{Field, PrimeField64};
use plonky2::fri::reduction_strategies::FriReductionStrategy;
use plonky2::gates::lookup::LookupGate;
use plonky2::gates::lookup_table::LookupTableGate;
use plonky2::hash::hash_types::HashOut;
use plonky2::plonk::circuit_builder::CircuitBuilder;
use plonky2::plonk::circuit_data::CircuitConfig;
use plonky2::plonk::vars::EvaluationVars;
use plonky2::plonk::verif_knobs::AdversaryKnobs;

use crate::c02::*;
use crate::corpus::*;
use crate::dsl::{self, Op, Program, D};
use crate::rng::*;

pub fn lookup_configs() -> Vec<(&'static str, CircuitConfig)> {
    let std = CircuitConfig::standard_recursion_config();
    let fri = |rate, cap, pow, q| fri_config(rate, cap, pow, FriReductionStrategy::ConstantArityBits(3, 3), q);
    vec![
        // 40 looking / 26 table slots per row, 6 partial SLDC polynomials
        ("std_small", configs().into_iter().find(|c| c.0 == "std_small").unwrap().1),
        // 33 / 22 slots
        ("narrow", narrow_config()),
        // 50 / 33 slots
        ("wide", wide_config()),
        // 7 partial SLDC polynomials, prover's divisibility check live
        ("qdf7", extra_configs()[0].1.clone()),
        // a single SLDC polynomial: 15 looking slots, lookup degree 15
        ("sldc1", CircuitConfig { num_wires: 135, num_routed_wires: 30, max_quotient_degree_factor: 16, num_challenges: 2, security_bits: 20,
                                  fri_config: fri(4, 1, 1, 5), ..std.clone() }),
    ]
}

/// tables and lookups; every second lookup output is public, the others are left unconstrained otherwise
pub fn gen_lookup_program(r: &mut Rng, cfg: &CircuitConfig, shape: usize) -> Program {
    let (nlu, nlut) = (lu_slots(cfg), lut_slots(cfg));
    let mut p = Program::default();
    let nt = match shape % 4 { 0 => 1, 1 => 2, 2 => 3, _ => 1 + r.below(4) as usize };
    for t in 0..nt {
        let len = match (shape + t) % 9 {
            0 => 1, 1 => 2, 2 => nlut - 1, 3 => nlut, 4 => nlut + 1, 5 => 2 * nlut, 6 => 3 * nlut + 1 + r.below(5) as usize,
            7 => 200 + r.below(401) as usize, _ => 1 + r.below(60) as usize };
        // distinct inputs spread over u16; outputs arbitrary with many duplicates; sometimes an identical entry repeated
        let mut tab: Vec<(u16, u16)> = vec![];
        let stride = 1 + r.below(100) as u16;
        let base = r.below(65536) as u16;
        for i in 0..len {
            let inp = base.wrapping_add((i as u16).wrapping_mul(stride | 1));
            let out = match r.below(3) { 0 => r.below(4) as u16, 1 => 65535 - r.below(3) as u16, _ => r.below(65536) as u16 };
            tab.push((inp, out));
        }
        // wrapping may have produced a repeated input: keep the first occurrence only
        let mut seen = std::collections::HashSet::new();
        tab.retain(|(i, _)| seen.insert(*i));
        if r.below(4) == 0 && tab.len() > 1 { let e = tab[0]; tab.push(e); } // identical pair twice
        p.tables.push(tab);
    }
    for t in 0..nt {
        let tab = p.tables[t].clone();
        let count = match (shape / 3 + t) % 8 {
            0 => 1, 1 => nlu - 1, 2 => nlu, 3 => nlu + 1, 4 => 2 * nlu, 5 => 3 * nlu + 5, 6 => 2 + r.below(10) as usize, _ => 1 + r.below(3 * nlu as u64) as usize };
        let mode = r.below(3);
        let fixed = *r.pick(&tab);
        for j in 0..count {
            let (inp, _) = match mode { 0 => fixed, 1 => tab[j % tab.len()], _ => *r.pick(&tab) };
            p.inputs.push(inp as u64);
            p.ops.push(Op::Input);
            let vi = p.ops.iter().filter(|o| matches!(o, Op::Input | Op::Lookup(..))).count() - 1;
            p.ops.push(Op::Lookup(t, vi));
            if j % 2 == 0 && j < 40 { p.ops.push(Op::Public(vi + 1)); }
        }
    }
    p.ops.push(Op::Public(0));
    p
}

fn looking_cell(circ: &Circ, k: usize, j: usize) -> (usize, usize, usize) {
    let nlu = lu_slots(&circ.data.common.config);
    let lw = &circ.data.prover_only.lookup_rows[k];
    let (row, s) = (lw.last_lu_gate + j / nlu, j % nlu);
    (row, LookupGate::wire_ith_looking_inp(s), LookupGate::wire_ith_looking_out(s))
}

fn neg(w: &mut dyn Write, r: &mut Rng, ci: usize, cname: &str, circ: &Circ, p: &Program, m0: &Vec<Vec<F>>, pis0: &[F], kind: &str,
       cor: &Corruption, strategies: &[&str]) -> usize {
    let nch = circ.data.common.config.num_challenges;
    let (part, m, pis) = match corrupted_assignment(circ, p, cor) {
        Ok(x) => x,
        Err(e) => { writeln!(w, "c08 {ci} {cname} {kind} witness = 1 # {} outcome=witness-err:{}", cor.describe(), e.replace(' ', "_")).unwrap(); return 1; }
    };
    let viol = match circ.violation_after(m0, pis0, &m, &pis) {
        Some(v) => v,
        None => { writeln!(w, "c08 {ci} {cname} {kind} none = 1 # {} leaves the lookup relation intact: skipped", cor.describe()).unwrap(); return 1; }
    };
    let mut n = 0;
    for s in strategies {
        let k = strategy_knobs(s, r, nch);
        let (out, det) = adversarial_prove(circ, part.clone(), cor, k);
        writeln!(w, "c08 {ci} {cname} {kind} {s} = {} # {} violated={} outcome={} {}", (out != "ACCEPTED") as u8, cor.describe(), viol, out, det).unwrap();
        n += 1;
    }
    n
}

pub fn run_case(w: &mut dyn Write, r: &mut Rng, ci: usize, cname: &str, cfg: &CircuitConfig, p: &Program, thorough: bool) -> usize {
    let desc = format!("tables={:?} lookups={:?}", p.tables.iter().map(|t| t.len()).collect::<Vec<_>>(),
                       (0..p.tables.len()).map(|t| p.ops.iter().filter(|o| matches!(o, Op::Lookup(tt, _) if *tt == t)).count()).collect::<Vec<_>>());
    let circ = match build_circ(p, cfg) {
        Ok(c) => c,
        Err(e) => { writeln!(w, "c08 {ci} {cname} positive honest = 0 # {desc} build failed: {e}").unwrap(); return 1; }
    };
    let honest = Corruption::default();
    let (vals, pubs) = dsl::eval_native(p).expect("lookup program satisfiable");
    let (part0, m0, pis0) = match corrupted_assignment(&circ, p, &honest) {
        Ok(x) => x,
        Err(e) => { writeln!(w, "c08 {ci} {cname} positive honest = 0 # {desc} witness failed: {e}").unwrap(); return 1; }
    };
    // every lookup output in the looking rows equals the table's value for its input
    let mut outputs_ok = true;
    let mut vi = 0;
    let mut seen = vec![0usize; p.tables.len()];
    for op in &p.ops {
        match op {
            Op::Input => vi += 1,
            Op::Lookup(t, a) => {
                let (row, cin, cout) = looking_cell(&circ, *t, seen[*t]);
                seen[*t] += 1;
                if m0[row][cin].to_canonical_u64() != vals[*a] || m0[row][cout].to_canonical_u64() != vals[vi] { outputs_ok = false; }
                vi += 1;
            }
            _ => {}
        }
    }
    let sat = circ.full_violation(&m0, &pis0);
    let (out, det) = adversarial_prove(&circ, part0.clone(), &honest, AdversaryKnobs::default());
    let pis_ok = pis0.iter().map(|x| x.to_canonical_u64()).collect::<Vec<_>>() == pubs;
    let ok = (out == "ACCEPTED" && outputs_ok && pis_ok && sat.is_none()) as u8;
    let nsldc = circ.data.common.num_lookup_polys.saturating_sub(1);
    writeln!(w, "c08 {ci} {cname} positive honest = {ok} # {desc} rows={} sldc_polys={} outputs_ok={} pis_ok={} satisfied={} verify={} {}",
             circ.n, nsldc, outputs_ok, pis_ok, sat.unwrap_or("yes".into()), out, det).unwrap();
    let mut n = 1;
    // the committed lookup selector columns against their specification, and against the model
    let selv = circ.lookup_selector_violation();
    writeln!(w, "c08 {ci} {cname} positive lookup-selectors = {} # {desc} {}", selv.is_none() as u8, selv.unwrap_or("as specified".into())).unwrap();
    n += 1;
    if circ.n <= 256 { if let Some(l) = circ.lksel_line() { writeln!(w, "{l}").unwrap(); n += 1; } }
    if ok == 0 { return n; }
    // the public prover on the same inputs
    let pub_ok = match catch_unwind(AssertUnwindSafe(|| circ.data.prove(circ.inputs_witness(p)))) {
        Ok(Ok(pr)) => verdict(&circ.data, pr) == "ok", _ => false };
    writeln!(w, "c08 {ci} {cname} positive public-prove = {} #", pub_ok as u8).unwrap();
    n += 1;

    // ---------------- negatives
    let others = ["z-zero", "z-first", "quotient-perturb", "lenient-trim", "pow-override"];
    let nt = p.tables.len();
    let (nlu, nlut) = (lu_slots(cfg), lut_slots(cfg));
    let mk = |what: usize, cells: Vec<(usize, usize, u64)>| match what {
        0 => Corruption { cells, ..Default::default() },
        1 => Corruption { classes: cells, ..Default::default() },
        _ => Corruption { presets: cells, ..Default::default() },
    };
    for k in 0..nt {
        let table = circ.data.common.luts[k].clone();
        let nlook = circ.data.prover_only.lut_to_lookups[k].len();
        // prefer a lookup whose output is not public (odd index), so that only the lookup relation is touched
        let j = if nlook >= 2 { 1 + 2 * (r.below((nlook / 2) as u64) as usize) } else { 0 };
        let (row, cin, cout) = looking_cell(&circ, k, j);
        let old_out = m0[row][cout].to_canonical_u64();
        let old_in = m0[row][cin].to_canonical_u64();
        let strat = |r: &mut Rng| -> Vec<&'static str> {
            if thorough { let mut v = vec!["ignore-checks", "sldc-shift"]; v.extend(others); v }
            else { vec!["ignore-checks", "sldc-shift", *r.pick(&others)] }
        };
        // altered output: not the table's value for this input
        let mut wrong = (old_out + 1 + r.below(7)) % 65536;
        while table.contains(&(old_in as u16, wrong as u16)) { wrong = (wrong + 1) % 65536; }
        let s = strat(r);
        n += neg(w, r, ci, cname, &circ, p, &m0, &pis0, "altered-output", &mk(1, vec![(row, cout, wrong)]), &s);
        n += neg(w, r, ci, cname, &circ, p, &m0, &pis0, "altered-output-cell", &mk(0, vec![(row, cout, wrong)]), &["ignore-checks", "sldc-shift"]);
        n += neg(w, r, ci, cname, &circ, p, &m0, &pis0, "altered-output-preset", &mk(2, vec![(row, cout, wrong)]), &["ignore-checks", "sldc-shift"]);
        // the same forged output with the balancing constant entering the running sums at row x, for
        // the rows x of this table's region (all of them when there are few, else the boundary rows and
        // a sample): every transition constraint except the ones evaluated on row x holds, so the proof
        // must be rejected because of row x - this is what each row's TransSre / TransLdc selector is for
        {
            let lw = circ.data.prover_only.lookup_rows[k].clone();
            let all: Vec<usize> = (lw.last_lu_gate..=lw.first_lut_gate).collect();
            let cap = if thorough { 24 } else { 7 };
            let mut rows: Vec<usize> = if all.len() <= cap { all.clone() } else {
                let mut v = vec![lw.last_lu_gate, lw.last_lu_gate + 1, lw.last_lut_gate - 1, lw.last_lut_gate, lw.first_lut_gate];
                while v.len() < cap { v.push(*r.pick(&all)); }
                v
            };
            rows.sort(); rows.dedup();
            let names: Vec<String> = rows.iter().map(|x| format!("sldc-jump@{x}")).collect();
            let refs: Vec<&str> = names.iter().map(|x| x.as_str()).collect();
            n += neg(w, r, ci, cname, &circ, p, &m0, &pis0, "altered-output-cell", &mk(0, vec![(row, cout, wrong)]), &refs);
        }
        // input outside the table
        let mut outside = r.below(65536);
        while table.iter().any(|(i, _)| *i as u64 == outside) { outside = (outside + 1) % 65536; }
        let s = strat(r);
        n += neg(w, r, ci, cname, &circ, p, &m0, &pis0, "input-not-in-table", &mk(1, vec![(row, cin, outside)]), &s);
        // a pair of another table that is not a pair of this one
        if nt > 1 {
            let other = (k + 1 + r.below(nt as u64 - 1) as usize) % nt;
            let cand: Vec<(u16, u16)> = circ.data.common.luts[other].iter().copied().filter(|e| !table.contains(e)).collect();
            if !cand.is_empty() {
                let (a, b) = *r.pick(&cand);
                let s = strat(r);
                n += neg(w, r, ci, cname, &circ, p, &m0, &pis0, "pair-of-other-table", &mk(1, vec![(row, cin, a as u64), (row, cout, b as u64)]), &s);
            }
        }
        // multiplicity
        let lw = circ.data.prover_only.lookup_rows[k].clone();
        let e = r.below(table.len() as u64) as usize;
        let (trow, ts) = (lw.first_lut_gate - e / nlut, e % nlut);
        let cm = LookupTableGate::wire_ith_multiplicity(ts);
        let oldm = m0[trow][cm].to_canonical_u64();
        let newm = match r.below(3) { 0 => oldm + 1, 1 => (oldm + P - 1) % P, _ => r.next_u64() % P };
        let s = strat(r);
        n += neg(w, r, ci, cname, &circ, p, &m0, &pis0, "altered-multiplicity", &mk(0, vec![(trow, cm, newm)]), &s);
        // table cell (the RE polynomial must pin the table rows to the declared table)
        let ct = if r.coin() { LookupTableGate::wire_ith_looked_inp(ts) } else { LookupTableGate::wire_ith_looked_out(ts) };
        n += neg(w, r, ci, cname, &circ, p, &m0, &pis0, "altered-table-cell", &mk(0, vec![(trow, ct, (m0[trow][ct].to_canonical_u64() + 1) % P)]),
                 &["ignore-checks", "sldc-shift"]);
        // table cell AND the matching looking pair changed consistently (the sums balance, only RE can object)
        let once = (0..table.len()).find(|e| {
            let (tr, tss) = (lw.first_lut_gate - e / nlut, e % nlut);
            m0[tr][LookupTableGate::wire_ith_multiplicity(tss)] == F::ONE && table.iter().filter(|x| x.0 == table[*e].0).count() == 1
        });
        if let Some(e) = once {
            let (ti, to) = table[e];
            let (trow, ts) = (lw.first_lut_gate - e / nlut, e % nlut);
            if let Some(jj) = (0..nlook).find(|jj| { let (rr, c1, _) = looking_cell(&circ, k, *jj); m0[rr][c1].to_canonical_u64() == ti as u64 }) {
                let (rr, _, c2) = looking_cell(&circ, k, jj);
                let newo = (to as u64 + 1) % 65536;
                let cor = Corruption { cells: vec![(trow, LookupTableGate::wire_ith_looked_out(ts), newo)], presets: vec![(rr, c2, newo)], ..Default::default() };
                n += neg(w, r, ci, cname, &circ, p, &m0, &pis0, "table-and-lookup-consistently", &cor, &["ignore-checks", "sldc-shift"]);
            }
        }
        // a padding slot of the partially filled last looking row
        if nlook % nlu != 0 {
            let s = nlu - 1;
            let prow = lw.last_lut_gate - 1;
            n += neg(w, r, ci, cname, &circ, p, &m0, &pis0, "altered-padding-slot",
                     &mk(0, vec![(prow, LookupGate::wire_ith_looking_out(s), (m0[prow][LookupGate::wire_ith_looking_out(s)].to_canonical_u64() + 1) % P)]),
                     &["ignore-checks", "sldc-shift"]);
        }
    }
    // the honest public prover refuses an input outside the table
    {
        let mut q = p.clone();
        let t0 = &p.tables[0];
        let mut outside = r.below(65536);
        while t0.iter().any(|(i, _)| *i as u64 == outside) { outside = (outside + 1) % 65536; }
        q.inputs[0] = outside; // the first Input op feeds the first lookup of table 0
        let res = catch_unwind(AssertUnwindSafe(|| circ.data.prove(circ.inputs_witness(&q))));
        let (ok, what) = match res { Err(_) => (1, format!("panic {}", panic_site())), Ok(Err(e)) => (1, format!("err {}", e.to_string().replace(' ', "_"))),
                                     Ok(Ok(pr)) => ((verdict(&circ.data, pr) != "ok") as u8, "proof".into()) };
        writeln!(w, "c08 {ci} {cname} input-not-in-table public-prove = {ok} # input={outside} outcome={what}").unwrap();
        n += 1;
    }
    n
}

/// Fixed minimal case: the running-sum start defect fixed in repo commit bfbd0f1 (regression test; must be rejected).
pub fn replay_case(w: &mut dyn Write, cname: &str, cfg: &CircuitConfig) -> usize {
    let p = Program { tables: vec![vec![(1, 10), (2, 20)]], ops: vec![Op::Input, Op::Lookup(0, 0), Op::Public(1)], inputs: vec![2] };
    let circ = match build_circ(&p, cfg) { Ok(c) => c, Err(e) => { writeln!(w, "c08replay {cname} = 1 # build failed {e}").unwrap(); return 1; } };
    let honest = Corruption::default();
    let (_, m0, pis0) = corrupted_assignment(&circ, &p, &honest).expect("honest");
    let (row, _, cout) = looking_cell(&circ, 0, 0);
    let cor = Corruption { presets: vec![(row, cout, 999)], ..Default::default() };
    let mut r = Rng::new(1);
    let k = strategy_knobs("sldc-shift", &mut r, cfg.num_challenges);
    verif_set_and_prove(w, cname, &circ, &p, &m0, &pis0, &cor, k)
}

fn verif_set_and_prove(w: &mut dyn Write, cname: &str, circ: &Circ, p: &Program, m0: &Vec<Vec<F>>, pis0: &[F], cor: &Corruption, k: AdversaryKnobs) -> usize {
    let (part, m, pis) = corrupted_assignment(circ, p, cor).expect("corrupted assignment");
    let viol = circ.violation_after(m0, pis0, &m, &pis).unwrap_or("none".into());
    verif_knobs_prove(w, cname, circ, part, cor, k, &viol, &pis)
}

fn verif_knobs_prove(w: &mut dyn Write, cname: &str, circ: &Circ, part: plonky2::iop::witness::PartitionWitness<F>, cor: &Corruption, mut k: AdversaryKnobs,
                     viol: &str, pis: &[F]) -> usize {
    use plonky2::plonk::prover::prove_with_partition_witness;
    use plonky2::plonk::verif_knobs;
    use plonky2::util::timing::TimingTree;
    for (i, c) in cor.cells.iter().enumerate() { k.override_cells[i] = Some(*c); }
    verif_knobs::set(k);
    let res = catch_unwind(AssertUnwindSafe(|| prove_with_partition_witness(&circ.data.prover_only, &circ.data.common, part, &mut TimingTree::default())));
    verif_knobs::reset();
    let (ok, what) = match res {
        Ok(Ok(proof)) => {
            let claimed: Vec<u64> = proof.public_inputs.iter().map(|x| x.to_canonical_u64()).collect();
            let v = verdict(&circ.data, proof);
            ((v != "ok") as u8, format!("verify={v} public_inputs={claimed:?}"))
        }
        Ok(Err(e)) => (1, format!("prove-err {e}")),
        Err(_) => (1, format!("prove-panic {}", panic_site())),
    };
    let _ = pis;
    writeln!(w, "c08replay {cname} = {ok} # table=[(1,10),(2,20)] lookup(2) {} violated={viol} sldc_polys={} {what}", cor.describe(),
             circ.data.common.num_lookup_polys.saturating_sub(1)).unwrap();
    1
}

// ------------------------------------------------------------------ check_lookup_constraints correspondence
/// `lkc`: the real `check_lookup_constraints` on a tiny lookup circuit's data with random wire / z / selector values.
fn lkc_cases(w: &mut dyn Write, r: &mut Rng, count: usize) -> usize {
    let mut n = 0;
    let cfgs = lookup_configs();
    for (cname, cfg) in cfgs.iter() {
        if *cname == "wide" { continue; }
        // two small tables; the constraint evaluator only reads config, luts, quotient_degree_factor, num_lookup_selectors
        let p = Program { tables: vec![vec![(3, 7), (5, 7), (65535, 0)], (0..(lut_slots(cfg) + 2)).map(|i| (i as u16 * 3, (i % 4) as u16)).collect()],
                          ops: vec![Op::Input, Op::Lookup(0, 0), Op::Input, Op::Lookup(1, 2), Op::Public(1)], inputs: vec![5, 3] };
        let mut b = CircuitBuilder::<F, D>::new(cfg.clone());
        dsl::build(&p, &mut b);
        let data = b.build::<C>();
        let cd = &data.common;
        let nsel = cd.num_lookup_selectors;
        let npoly = cd.num_lookup_polys;
        for i in 0..count {
            let rnd_f = |r: &mut Rng| match r.below(8) { 0 => F::ZERO, 1 => F::ONE, 2 => F::NEG_ONE, _ => F::from_canonical_u64(r.next_u64() % P) };
            let rnd_e = |r: &mut Rng| -> FE {
                let a = rnd_f(r);
                let b = if r.below(3) == 0 { F::ZERO } else { rnd_f(r) };
                plonky2::field::extension::quadratic::QuadraticExtension([a, b])
            };
            let wires: Vec<FE> = (0..cfg.num_wires).map(|_| rnd_e(r)).collect();
            let local: Vec<FE> = (0..npoly).map(|_| rnd_e(r)).collect();
            let next: Vec<FE> = (0..npoly).map(|_| rnd_e(r)).collect();
            let sels: Vec<FE> = (0..nsel).map(|_| if i % 3 == 0 { rnd_e(r) } else { FE::from(F::from_canonical_u64(r.below(2))) }).collect();
            let deltas: [F; 4] = [rnd_f(r), rnd_f(r), rnd_f(r), rnd_f(r)];
            let consts: Vec<FE> = vec![FE::ZERO; cd.num_constants];
            let pih = HashOut::<F>::ZERO;
            let vars = EvaluationVars { local_constants: &consts, local_wires: &wires, public_inputs_hash: &pih };
            let res = plonky2::plonk::verif_hooks::check_lookup_constraints::<F, D>(cd, vars, &local, &next, &sels, &deltas);
            // args: routed wires, quotient degree factor, tables, deltas, selectors, local zs, next zs, the routed wires
            let mut a: Vec<u64> = vec![cfg.num_routed_wires as u64, cd.quotient_degree_factor as u64, cd.luts.len() as u64];
            for l in &cd.luts { a.push(l.len() as u64); for (x, y) in l.iter() { a.push(*x as u64); a.push(*y as u64); } }
            for d in deltas { a.push(d.to_canonical_u64()); }
            exts(&mut a, &sels);
            exts(&mut a, &local);
            exts(&mut a, &next);
            exts(&mut a, &wires[..cfg.num_routed_wires]);
            let mut o = vec![];
            for x in &res { ext(&mut o, x) }
            writeln!(w, "{}", line("lkc", &a, &o.iter().map(|x| x.to_string()).collect::<Vec<_>>().join(" "))).unwrap();
            n += 1;
        }
    }
    n
}

/// `clp`: the real `compute_lookup_polys` on honest witnesses of small lookup circuits with random challenges
/// (and one challenge alpha that collides with a table value: batch inversion of zero panics).
fn clp_cases(w: &mut dyn Write, r: &mut Rng, count: usize) -> usize {
    use plonky2::iop::generator::generate_partial_witness;
    use plonky2::plonk::prover::{set_lookup_wires, verif_compute_lookup_polys};
    let mut n = 0;
    let cfgs = lookup_configs();
    for ci in 0..count {
        let (_, cfg) = &cfgs[[0usize, 1, 3, 4][ci % 4]];
        let p = gen_lookup_program(r, cfg, 2 * ci + 1);
        if p.tables.iter().map(|t| t.len()).sum::<usize>() > 120 { continue; }
        let circ = match build_circ(&p, cfg) { Ok(c) => c, Err(_) => continue };
        let mut part = match generate_partial_witness(circ.inputs_witness(&p), &circ.data.prover_only, &circ.data.common) { Ok(x) => x, Err(_) => continue };
        if set_lookup_wires(&circ.data.prover_only, &circ.data.common, &mut part).is_err() { continue; }
        let mw = part.full_witness();
        let routed = cfg.num_routed_wires;
        for variant in 0..3 {
            let mut deltas = [F::from_canonical_u64(r.next_u64() % P), F::from_canonical_u64(r.next_u64() % P),
                              F::from_canonical_u64(r.next_u64() % P), F::from_canonical_u64(r.next_u64() % P)];
            if variant == 2 {
                // alpha = the combination of the first table slot of the first table
                let lw = &circ.data.prover_only.lookup_rows[0];
                deltas[2] = mw.get_wire(lw.first_lut_gate, 0) + deltas[0] * mw.get_wire(lw.first_lut_gate, 1);
            }
            let res = catch_unwind(AssertUnwindSafe(|| verif_compute_lookup_polys(&mw, &deltas, &circ.data.prover_only, &circ.data.common)));
            let mut a: Vec<u64> = vec![circ.n as u64, routed as u64, cfg.max_quotient_degree_factor as u64];
            a.push(circ.data.prover_only.lookup_rows.len() as u64);
            for lw in &circ.data.prover_only.lookup_rows { a.extend([lw.last_lu_gate as u64, lw.last_lut_gate as u64, lw.first_lut_gate as u64]); }
            for d in deltas { a.push(d.to_canonical_u64()); }
            for row in 0..circ.n { for c in 0..routed { a.push(mw.get_wire(row, c).to_canonical_u64()); } }
            let rs = match res {
                Ok(polys) => polys.iter().flat_map(|pv| pv.values.iter().map(|x| x.to_canonical_u64().to_string())).collect::<Vec<_>>().join(" "),
                Err(_) => "fail".to_string(),
            };
            writeln!(w, "{}", line("clp", &a, &rs)).unwrap();
            n += 1;
        }
    }
    n
}

pub fn run(seed: u64, tier: &str, w: &mut dyn Write) -> usize {
    // Rng::new(s) and Rng::new(s + d) are the same splitmix stream shifted by d draws: decorrelate by forking
    let mut r = Rng::new(seed ^ 0xC08).fork();
    let thorough = tier == "thorough";
    let mut n = lkc_cases(w, &mut r, if thorough { 60 } else { 8 });
    n += clp_cases(w, &mut r, if thorough { 16 } else { 4 });
    let cfgs = lookup_configs();
    for (cname, cfg) in cfgs.iter() { n += replay_case(w, cname, cfg); }
    n += replay_case(w, "standard", &CircuitConfig::standard_recursion_config());
    // unused table: the builder refuses
    {
        let p = Program { tables: vec![vec![(1, 2)], vec![(3, 4)]], ops: vec![Op::Input, Op::Lookup(0, 0), Op::Public(1)], inputs: vec![1] };
        let res = build_circ(&p, &cfgs[0].1);
        writeln!(w, "c08 0 std_small unused-table build = {} # {}", res.is_err() as u8, res.err().unwrap_or("built".into())).unwrap();
        n += 1;
    }
    let cases = if thorough { 45 } else { 10 };
    for ci in 0..cases {
        let (cname, cfg) = &cfgs[ci % cfgs.len()];
        let p = gen_lookup_program(&mut r, cfg, ci + (seed as usize % 7));
        n += run_case(w, &mut r, ci, cname, cfg, &p, thorough);
    }
    n
}
