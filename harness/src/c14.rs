//! C14: run the field implementation on boundary grids and random operands; one case per line
//! `op args.. = results..` (raw u64 representations, decimal).
use std::io::Write;
use std::panic::{catch_unwind, AssertUnwindSafe};

use plonky2_field::extension::FieldExtension;
use plonky2_field::extension::quadratic::QuadraticExtension;
use plonky2_field::extension::quartic::QuarticExtension;
use plonky2_field::extension::quintic::QuinticExtension;
use plonky2_field::extension::{Extendable, Frobenius};
use plonky2_field::goldilocks_field::GoldilocksField as F;
use plonky2_field::ops::Square;
use plonky2_field::types::{Field, Field64, PrimeField64};
use plonky2_field::verif_hooks as fh;

use crate::rng::*;

fn fmt_res<T: std::fmt::Display>(r: std::thread::Result<Vec<T>>) -> String {
    match r {
        Ok(v) => v.iter().map(|x| x.to_string()).collect::<Vec<_>>().join(" "),
        Err(_) => "panic".to_string(),
    }
}

pub struct Out<'a> {
    pub w: &'a mut dyn Write,
    pub n: usize,
}
impl<'a> Out<'a> {
    pub fn case(&mut self, op: &str, args: &[u128], f: impl FnOnce() -> Vec<u64>) {
        let r = catch_unwind(AssertUnwindSafe(f));
        let a = args.iter().map(|x| x.to_string()).collect::<Vec<_>>().join(" ");
        writeln!(self.w, "{} {} = {}", op, a, fmt_res(r)).unwrap();
        self.n += 1;
    }
}

fn binops(o: &mut Out, x: u64, y: u64) {
    let (a, b) = (x as u128, y as u128);
    o.case("add", &[a, b], || vec![(F(x) + F(y)).0]);
    o.case("sub", &[a, b], || vec![(F(x) - F(y)).0]);
    o.case("mul", &[a, b], || vec![(F(x) * F(y)).0]);
    if y < P {
        o.case("addc", &[a, b], || vec![unsafe { F(x).add_canonical_u64(y) }.0]);
        o.case("subc", &[a, b], || vec![unsafe { F(x).sub_canonical_u64(y) }.0]);
    }
    if y < (1 << 32) {
        o.case("red96", &[a, b], || vec![F::from_noncanonical_u96((x, y as u32)).0]);
    }
}

fn unops(o: &mut Out, x: u64) {
    let a = x as u128;
    o.case("neg", &[a], || vec![(-F(x)).0]);
    o.case("square", &[a], || vec![F(x).square().0]);
    o.case("canon", &[a], || vec![F(x).to_canonical_u64()]);
    o.case("inv", &[a], || match F(x).try_inverse() {
        Some(r) => vec![1, r.0],
        None => vec![0],
    });
    // i64 reinterpretation of the same bits
    o.case("fromi64", &[a], || vec![F::from_noncanonical_i64(x as i64).0]);
}

fn ext_cases(o: &mut Out, r: &mut Rng, b: &[u64], n: usize) {
    for _ in 0..n {
        let a: Vec<u64> = (0..5).map(|_| mixed_u64(r, b)).collect();
        let c: Vec<u64> = (0..5).map(|_| mixed_u64(r, b)).collect();
        let args2: Vec<u128> = a[..2].iter().chain(c[..2].iter()).map(|&x| x as u128).collect();
        o.case("ext2mul", &args2, || fh::ext2_mul([a[0], a[1]], [c[0], c[1]]).iter().map(|x| x.0).collect());
        let args4: Vec<u128> = a[..4].iter().chain(c[..4].iter()).map(|&x| x as u128).collect();
        o.case("ext4mul", &args4, || {
            fh::ext4_mul([a[0], a[1], a[2], a[3]], [c[0], c[1], c[2], c[3]]).iter().map(|x| x.0).collect()
        });
        let args5: Vec<u128> = a.iter().chain(c.iter()).map(|&x| x as u128).collect();
        o.case("ext5mul", &args5, || {
            fh::ext5_mul([a[0], a[1], a[2], a[3], a[4]], [c[0], c[1], c[2], c[3], c[4]])
                .iter()
                .map(|x| x.0)
                .collect()
        });
        // the operator impls (specialised Mul) must agree with the re-exported functions
        o.case("ext2mul", &args2, || {
            let p = QuadraticExtension::<F>([F(a[0]), F(a[1])]) * QuadraticExtension::<F>([F(c[0]), F(c[1])]);
            p.0.iter().map(|x| x.0).collect()
        });
        o.case("ext4mul", &args4, || {
            let p = QuarticExtension::<F>([F(a[0]), F(a[1]), F(a[2]), F(a[3])])
                * QuarticExtension::<F>([F(c[0]), F(c[1]), F(c[2]), F(c[3])]);
            p.0.iter().map(|x| x.0).collect()
        });
        o.case("ext5mul", &args5, || {
            let p = QuinticExtension::<F>([F(a[0]), F(a[1]), F(a[2]), F(a[3]), F(a[4])])
                * QuinticExtension::<F>([F(c[0]), F(c[1]), F(c[2]), F(c[3]), F(c[4])]);
            p.0.iter().map(|x| x.0).collect()
        });
    }
}

/// modular inverse of a modulo m (m < 2^63), if it exists
fn inv_mod(a: u128, m: u128) -> Option<u128> {
    let (mut r0, mut r1) = (m as i128, (a % m) as i128);
    let (mut t0, mut t1) = (0i128, 1i128);
    while r1 != 0 { let q = r0 / r1; (r0, r1) = (r1, r0 - q * r1); (t0, t1) = (t1, t0 - q * t1); }
    if r0 != 1 { return None; }
    Some(((t0 % m as i128 + m as i128) % m as i128) as u128)
}

/// (x, y) with  p*x + q*y = 2^128 + eps  exactly, x, y < 2^64 (p high, q below 2^40): the carry out of a
/// 128-bit accumulator that receives two products is set and the wrapped sum is the tiny `eps`.
fn solve_carry(p: u64, q: u64, eps: u128) -> Option<(u64, u64)> {
    let (pp, qq) = (p as u128, q as u128);
    if qq < 2 { return None; }
    let t_mod = ((u128::MAX % qq) + 1 + eps) % qq;                 // (2^128 + eps) mod q
    let x0 = t_mod * inv_mod(pp, qq)? % qq;                        // x = x0 (mod q)
    // the largest x = x0 + k q below 2^64 with p*x <= 2^128 + eps
    let mut x = x0 + ((u64::MAX as u128 - x0) / qq) * qq;
    for _ in 0..4 {
        let px = pp * x;                                           // < 2^128
        let diff = 0u128.wrapping_sub(px).wrapping_add(eps);       // 2^128 + eps - p x   (if that is below 2^128)
        if diff % qq == 0 && diff / qq <= u64::MAX as u128 && (px > eps) { return Some((x as u64, (diff / qq) as u64)); }
        if x < qq { break; }
        x -= qq;
    }
    None
}

/// Extension products whose cross terms land exactly on / just above 2^128 (carry set, wrapped accumulator
/// below 2^32 or 2^64): the delayed-reduction paths of ext2/ext4/ext5 multiplication.
fn ext_carry_cases(o: &mut Out, r: &mut Rng, n: usize) {
    let eps_list: [u128; 8] = [0, 1, (1 << 32) - 1, 1 << 32, (1 << 32) + 1, (1 << 63) - 1, (1u128 << 64) - 1, 1u128 << 64];
    let mut made = 0;
    let mut tries = 0;
    while made < n && tries < 50 * n {
        tries += 1;
        let p = match r.below(3) { 0 => P - 1 - r.below(4), 1 => u64::MAX - r.below(1 << 20), _ => (1u64 << 63) + r.next_u64() % (1 << 63) };
        let q = match r.below(3) { 0 => (1u64 << 34) - 2 + r.below(8), 1 => 3 + 2 * r.below(1 << 30), _ => 1 + r.next_u64() % (1 << 39) };
        let eps = eps_list[r.below(eps_list.len() as u64) as usize];
        let Some((x, y)) = solve_carry(p, q, eps) else { continue };
        made += 1;
        // D = 2: c1 = a0 b1 + a1 b0 ; also the same pattern on c0 = a0 b0 + 7 a1 b1 (7 q instead of q is not solved for: other pattern)
        let (a, c) = ([p, q], [y, x]);          // a0 = p, a1 = q, b0 = y, b1 = x : a0 b1 + a1 b0 = p x + q y
        let args2: Vec<u128> = a.iter().chain(c.iter()).map(|&v| v as u128).collect();
        o.case("ext2mul", &args2, || fh::ext2_mul([a[0], a[1]], [c[0], c[1]]).iter().map(|v| v.0).collect());
        let (a, c) = ([q, p], [x, y]);          // swapped roles
        let args2: Vec<u128> = a.iter().chain(c.iter()).map(|&v| v as u128).collect();
        o.case("ext2mul", &args2, || fh::ext2_mul([a[0], a[1]], [c[0], c[1]]).iter().map(|v| v.0).collect());
        // D = 4 / 5: the two products placed on every coordinate k = i + j = i' + j' (other limbs zero or random small)
        for k in 1..4usize {
            let (i, j) = (0usize, k);
            let (i2, j2) = (k, 0usize);
            let mut a4 = [0u64; 4]; let mut c4 = [0u64; 4];
            a4[i] = p; c4[j] = x; a4[i2] = q; c4[j2] = y;
            if i == i2 { continue; }
            let args4: Vec<u128> = a4.iter().chain(c4.iter()).map(|&v| v as u128).collect();
            o.case("ext4mul", &args4, || fh::ext4_mul(a4, c4).iter().map(|v| v.0).collect());
        }
        for k in 1..5usize {
            let mut a5 = [0u64; 5]; let mut c5 = [0u64; 5];
            a5[0] = p; c5[k] = x; a5[k] = q; c5[0] = y;
            let args5: Vec<u128> = a5.iter().chain(c5.iter()).map(|&v| v as u128).collect();
            o.case("ext5mul", &args5, || fh::ext5_mul(a5, c5).iter().map(|v| v.0).collect());
        }
    }
}

/// batch inversion at many lengths (the implementation interleaves four chains and may block long inputs):
/// every length 0..=20, lengths around powers of two up to 4099; Goldilocks and the quadratic extension
fn batch_inverse_lengths(o: &mut Out, r: &mut Rng, b: &[u64], thorough: bool) {
    let mut lens: Vec<usize> = (0..=20).collect();
    lens.extend([31, 32, 33, 63, 64, 65, 127, 129, 255, 256, 257, 511, 513, 1023, 1024, 1025, 1031, 2047, 2048, 2049, 3001, 4099]);
    if thorough { lens.extend([4096, 4097, 5000, 8191, 8193, 10000]); }
    for len in lens {
        let xs: Vec<u64> = (0..len).map(|i| { let mut v = if i % 7 == 0 { mixed_u64(r, b) } else { r.next_u64() }; while v % P == 0 { v = r.next_u64(); } v }).collect();
        let args: Vec<u128> = xs.iter().map(|&v| v as u128).collect();
        o.case("batchinv", &args, || {
            let fs: Vec<F> = xs.iter().map(|&v| F(v)).collect();
            F::batch_multiplicative_inverse(&fs).iter().map(|v| v.to_canonical_u64()).collect()
        });
        if len <= 2049 {
            let ys: Vec<u64> = (0..2 * len).map(|_| { let mut v = r.next_u64(); while v % P == 0 { v = r.next_u64(); } v }).collect();
            let args2: Vec<u128> = ys.iter().map(|&v| v as u128).collect();
            o.case("ext2batchinv", &args2, || {
                let es: Vec<QuadraticExtension<F>> = ys.chunks(2).map(|c| QuadraticExtension::<F>([F(c[0]), F(c[1])])).collect();
                QuadraticExtension::<F>::batch_multiplicative_inverse(&es).iter().flat_map(|e| e.0.iter().map(|v| v.to_canonical_u64()).collect::<Vec<_>>()).collect()
            });
        }
    }
}

/// the linear operations, division and the assigning / iterator forms of the three extension fields
/// (judged by tools/spec_c14.py only; canonical outputs)
fn ext_linear_cases(o: &mut Out, r: &mut Rng, b: &[u64], n: usize) {
    macro_rules! fam {
        ($D:literal, $T:ident) => {{
            let a: Vec<u64> = (0..$D).map(|_| mixed_u64(r, b)).collect();
            let c: Vec<u64> = (0..$D).map(|_| mixed_u64(r, b)).collect();
            let s = mixed_u64(r, b);
            let mk = |v: &[u64]| -> $T<F> { let mut arr = [F(0); $D]; for i in 0..$D { arr[i] = F(v[i]); } $T::<F>(arr) };
            let out = |x: $T<F>| -> Vec<u64> { x.0.iter().map(|y| y.to_canonical_u64()).collect() };
            let args: Vec<u128> = a.iter().chain(c.iter()).map(|&x| x as u128).collect();
            let (x, y) = (mk(&a), mk(&c));
            o.case(concat!("ext", $D, "add"), &args, || out(x + y));
            o.case(concat!("ext", $D, "sub"), &args, || out(x - y));
            o.case(concat!("ext", $D, "addassign"), &args, || { let mut z = x; z += y; z -= y; z += y; out(z) });
            o.case(concat!("ext", $D, "mulassign"), &args, || { let mut z = x; z *= y; out(z) });
            o.case(concat!("ext", $D, "sum"), &args, || out([x, y, x].into_iter().sum::<$T<F>>()));
            o.case(concat!("ext", $D, "product"), &args, || out([x, y].into_iter().product::<$T<F>>()));
            if c.iter().any(|v| v % P != 0) {
                o.case(concat!("ext", $D, "div"), &args, || out(x / y));
            }
            let args1: Vec<u128> = a.iter().map(|&x| x as u128).collect();
            o.case(concat!("ext", $D, "neg"), &args1, || out(-x));
            o.case(concat!("ext", $D, "double"), &args1, || out(x.double()));
            let mut args_s = args1.clone(); args_s.push(s as u128);
            o.case(concat!("ext", $D, "scalarmul"), &args_s, || out(<$T<F> as FieldExtension<$D>>::scalar_mul(&x, F(s))));
            o.case(concat!("ext", $D, "frombase"), &[s as u128], || out(<$T<F> as FieldExtension<$D>>::from_basefield(F(s))));
        }};
    }
    for _ in 0..n {
        fam!(2, QuadraticExtension);
        fam!(4, QuarticExtension);
        fam!(5, QuinticExtension);
        // base field: division, cube, doubling, halving, exponentiation by squaring of small powers
        let (x, y) = (mixed_u64(r, b), mixed_u64(r, b));
        if y % P != 0 { o.case("div", &[x as u128, y as u128], || vec![(F(x) / F(y)).to_canonical_u64()]); }
        o.case("cube", &[x as u128], || vec![F(x).cube().to_canonical_u64()]);
        o.case("double", &[x as u128], || vec![F(x).double().to_canonical_u64()]);
        o.case("exppow2", &[x as u128, (y % 70) as u128], || vec![F(x).exp_power_of_2((y % 70) as usize).to_canonical_u64()]);
        o.case("mulu32", &[x as u128, (y & 0xffff_ffff) as u128], || vec![F(x).multiply_accumulate(F(0), F(0)).to_canonical_u64(), (F(x) * F::from_canonical_u32((y & 0xffff_ffff) as u32)).to_canonical_u64()]);
    }
}

fn wide_cases(o: &mut Out, r: &mut Rng, b: &[u64], n: usize) {
    for i in 0..n {
        // u128 inputs: products of boundary values, boundary pairs (hi, lo), random
        let x: u128 = match i % 3 {
            0 => (*r.pick(b) as u128) * (*r.pick(b) as u128),
            1 => ((*r.pick(b) as u128) << 64) | (*r.pick(b) as u128),
            _ => ((r.next_u64() as u128) << 64) | (r.next_u64() as u128),
        };
        o.case("red128", &[x], || vec![F::from_noncanonical_u128(x).0]);
        // reduce160 under its documented bound x < 2^160 - 2^128 + 2^96
        let hi: u32 = match i % 4 {
            0 => 0,
            1 => u32::MAX,
            2 => r.below(64) as u32,
            _ => r.next_u64() as u32,
        };
        let mut lo = x;
        if hi == u32::MAX {
            lo &= (1u128 << 96) - 1; // keep below the bound
        }
        o.case("red160", &[lo, hi as u128], || vec![unsafe { fh::reduce160(lo, hi) }.0]);
        let (a, x1, y1) = (mixed_u64(r, b), mixed_u64(r, b), mixed_u64(r, b));
        o.case("mac", &[a as u128, x1 as u128, y1 as u128], || vec![F(a).multiply_accumulate(F(x1), F(y1)).0]);
    }
}

/// hand-modelled generic code: exponentiation, 2-power inverse, batch inversion, extension helpers
fn generic_cases(o: &mut Out, r: &mut Rng, b: &[u64], n: usize) {
    for i in 0..n {
        let x = mixed_u64(r, b);
        let e = if i % 2 == 0 { r.below(70) } else { mixed_u64(r, b) };
        o.case("expu64", &[x as u128, e as u128], || vec![F(x).exp_u64(e).to_canonical_u64()]);
        let k = r.below(80);
        o.case("inv2exp", &[k as u128], || vec![F::inverse_2exp(k as usize).to_canonical_u64()]);
        let len = r.below(12) as usize;
        let xs: Vec<u64> = (0..len)
            .map(|_| {
                let mut v = mixed_u64(r, b);
                while v % P == 0 {
                    v = r.next_u64();
                }
                v
            })
            .collect();
        let args: Vec<u128> = xs.iter().map(|&v| v as u128).collect();
        o.case("batchinv", &args, || {
            let fs: Vec<F> = xs.iter().map(|&v| F(v)).collect();
            F::batch_multiplicative_inverse(&fs).iter().map(|v| v.to_canonical_u64()).collect()
        });
        // extension inverse and frobenius, canonical outputs
        let a: Vec<u64> = (0..5).map(|_| mixed_u64(r, b)).collect();
        let args2: Vec<u128> = a[..2].iter().map(|&v| v as u128).collect();
        o.case("ext2inv", &args2, || {
            match QuadraticExtension::<F>([F(a[0]), F(a[1])]).try_inverse() {
                Some(v) => std::iter::once(1).chain(v.0.iter().map(|x| x.to_canonical_u64())).collect(),
                None => vec![0],
            }
        });
        let args4: Vec<u128> = a[..4].iter().map(|&v| v as u128).collect();
        o.case("ext4inv", &args4, || {
            match QuarticExtension::<F>([F(a[0]), F(a[1]), F(a[2]), F(a[3])]).try_inverse() {
                Some(v) => std::iter::once(1).chain(v.0.iter().map(|x| x.to_canonical_u64())).collect(),
                None => vec![0],
            }
        });
        let args5: Vec<u128> = a.iter().map(|&v| v as u128).collect();
        o.case("ext5inv", &args5, || {
            match QuinticExtension::<F>([F(a[0]), F(a[1]), F(a[2]), F(a[3]), F(a[4])]).try_inverse() {
                Some(v) => std::iter::once(1).chain(v.0.iter().map(|x| x.to_canonical_u64())).collect(),
                None => vec![0],
            }
        });
        o.case("ext2frob", &args2, || {
            QuadraticExtension::<F>([F(a[0]), F(a[1])]).frobenius().0.iter().map(|x| x.to_canonical_u64()).collect()
        });
        o.case("ext4frob", &args4, || {
            QuarticExtension::<F>([F(a[0]), F(a[1]), F(a[2]), F(a[3])])
                .frobenius()
                .0
                .iter()
                .map(|x| x.to_canonical_u64())
                .collect()
        });
        o.case("ext5frob", &args5, || {
            QuinticExtension::<F>([F(a[0]), F(a[1]), F(a[2]), F(a[3]), F(a[4])])
                .frobenius()
                .0
                .iter()
                .map(|x| x.to_canonical_u64())
                .collect()
        });
        o.case("ext2sq", &args2, || {
            QuadraticExtension::<F>([F(a[0]), F(a[1])]).square().0.iter().map(|x| x.to_canonical_u64()).collect()
        });
        o.case("ext4sq", &args4, || {
            QuarticExtension::<F>([F(a[0]), F(a[1]), F(a[2]), F(a[3])]).square().0.iter().map(|x| x.to_canonical_u64()).collect()
        });
        o.case("ext5sq", &args5, || {
            QuinticExtension::<F>([F(a[0]), F(a[1]), F(a[2]), F(a[3]), F(a[4])]).square().0.iter().map(|x| x.to_canonical_u64()).collect()
        });
    }
    // constants the theorems mention, as the implementation sees them
    o.case("const_w", &[2], || vec![<F as Extendable<2>>::W.0]);
    o.case("const_w", &[4], || vec![<F as Extendable<4>>::W.0]);
    o.case("const_w", &[5], || vec![<F as Extendable<5>>::W.0]);
    o.case("const_dth", &[2], || vec![<F as Extendable<2>>::DTH_ROOT.0]);
    o.case("const_dth", &[4], || vec![<F as Extendable<4>>::DTH_ROOT.0]);
    o.case("const_dth", &[5], || vec![<F as Extendable<5>>::DTH_ROOT.0]);
}

/// packed field type of this build (width 1 scalar, 4 with AVX2, 8 with AVX-512): lane-wise results,
/// canonicalised, must equal the scalar specification
fn packed_cases(o: &mut Out, r: &mut Rng, b: &[u64], n: usize) {
    use plonky2_field::packable::Packable;
    use plonky2_field::packed::PackedField;
    type PF = <F as Packable>::Packing;
    let width = PF::WIDTH;
    for i in 0..n {
        let xs: Vec<F> = (0..width).map(|_| F(if i % 3 == 0 { *r.pick(b) } else { mixed_u64(r, b) })).collect();
        let ys: Vec<F> = (0..width).map(|_| F(if i % 5 == 0 { *r.pick(b) } else { mixed_u64(r, b) })).collect();
        let px = *PF::from_slice(&xs);
        let py = *PF::from_slice(&ys);
        let sum = px + py; let dif = px - py; let prd = px * py; let neg = -px; let sq = px.square();
        for l in 0..width {
            let (x, y) = (xs[l].0 as u128, ys[l].0 as u128);
            o.case("padd", &[x, y], || vec![sum.as_slice()[l].to_canonical_u64()]);
            o.case("psub", &[x, y], || vec![dif.as_slice()[l].to_canonical_u64()]);
            o.case("pmul", &[x, y], || vec![prd.as_slice()[l].to_canonical_u64()]);
            o.case("pneg", &[x], || vec![neg.as_slice()[l].to_canonical_u64()]);
            o.case("psquare", &[x], || vec![sq.as_slice()[l].to_canonical_u64()]);
        }
        // interleave is its own inverse and a lane permutation (used by the packed FFT)
        if width > 1 {
            let (a, c) = px.interleave(py, 1);
            let (a2, c2) = a.interleave(c, 1);
            let ok = a2.as_slice() == px.as_slice() && c2.as_slice() == py.as_slice();
            o.case("pinterleave_involution", &[width as u128], || vec![ok as u64]);
        }
    }
    o.case("packed_width", &[], || vec![width as u64]);
}

pub fn run(seed: u64, tier: &str, w: &mut dyn Write) -> usize {
    let mut r = Rng::new(seed ^ 0xC14);
    let b = boundary_u64();
    let mut o = Out { w, n: 0 };
    // full boundary grid
    for &x in &b {
        unops(&mut o, x);
        for &y in &b {
            binops(&mut o, x, y);
        }
    }
    let nrand = if tier == "thorough" { 300_000 } else { 6_000 };
    for _ in 0..nrand {
        let (x, y) = (mixed_u64(&mut r, &b), mixed_u64(&mut r, &b));
        binops(&mut o, x, y);
    }
    for _ in 0..nrand / 10 {
        let x = mixed_u64(&mut r, &b);
        unops(&mut o, x);
    }
    wide_cases(&mut o, &mut r, &b, nrand / 4);
    ext_cases(&mut o, &mut r, &b, nrand / 10);
    ext_carry_cases(&mut o, &mut r, if tier == "thorough" { 400 } else { 60 });
    ext_linear_cases(&mut o, &mut r, &b, nrand / 20);
    batch_inverse_lengths(&mut o, &mut r, &b, tier == "thorough");
    generic_cases(&mut o, &mut r, &b, nrand / 30);
    packed_cases(&mut o, &mut r, &b, nrand / 10);
    o.n
}
