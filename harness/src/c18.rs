//! C18: verifiers and proof decoders fail cleanly on malformed input.
//! Lines: `c18 <entry> <base> <mutation id> = ok|err|panic  # description`
//!   entry: 0 plain verify, 1 compressed verify, 2 from_bytes(+verify), 3 compressed from_bytes(+verify)
//! The unmodified input is mutation id 0 of each entry (expected `ok`); every other listed mutation
//! changes the shape or content, so `ok` and `panic` are both failures of the property.
use std::io::Write;
use std::panic::{catch_unwind, AssertUnwindSafe};

use plonky2::field::extension::quadratic::QuadraticExtension;
use plonky2::field::goldilocks_field::GoldilocksField as F;
use plonky2::field::types::Field;
use plonky2::hash::hash_types::HashOut;
use plonky2::plonk::proof::{CompressedProofWithPublicInputs, ProofWithPublicInputs};

use crate::corpus::*;
use crate::dsl::D;
use crate::rng::Rng;

type Mut<T> = (String, Box<dyn Fn(&mut T)>);

fn vec_muts<T: 'static, E: Clone + 'static>(
    out: &mut Vec<Mut<T>>,
    name: &str,
    get: impl Fn(&mut T) -> Option<&mut Vec<E>> + Clone + 'static,
    extra: E,
) {
    let g = get.clone();
    out.push((format!("{name}: empty"), Box::new(move |p| { if let Some(v) = g(p) { v.clear() } })));
    let g = get.clone();
    out.push((format!("{name}: drop last"), Box::new(move |p| { if let Some(v) = g(p) { v.pop(); } })));
    let g = get.clone();
    out.push((format!("{name}: duplicate last"), Box::new(move |p| {
        if let Some(v) = g(p) { if let Some(l) = v.last().cloned() { v.push(l) } }
    })));
    let g = get.clone();
    out.push((format!("{name}: one more"), Box::new(move |p| { if let Some(v) = g(p) { v.push(extra.clone()) } })));
}

fn plain_mutations(nrounds: usize, nsteps: usize, ncaps: usize) -> Vec<Mut<Pwpi>> {
    let mut m: Vec<Mut<Pwpi>> = vec![];
    let h0 = HashOut::<F>::ZERO;
    let e0 = QuadraticExtension::<F>::ZERO;
    vec_muts(&mut m, "wires_cap", |p: &mut Pwpi| Some(&mut p.proof.wires_cap.0), h0);
    vec_muts(&mut m, "plonk_zs_partial_products_cap", |p: &mut Pwpi| Some(&mut p.proof.plonk_zs_partial_products_cap.0), h0);
    vec_muts(&mut m, "quotient_polys_cap", |p: &mut Pwpi| Some(&mut p.proof.quotient_polys_cap.0), h0);
    // caps of length 3 and 0 (not a power of two)
    m.push(("wires_cap: length 3".into(), Box::new(|p| { p.proof.wires_cap.0 = vec![HashOut::<F>::ZERO; 3] })));
    m.push(("quotient_polys_cap: length 3".into(), Box::new(|p| { p.proof.quotient_polys_cap.0 = vec![HashOut::<F>::ZERO; 3] })));
    m.push(("zs_cap: length 6".into(), Box::new(|p| { p.proof.plonk_zs_partial_products_cap.0 = vec![HashOut::<F>::ZERO; 6] })));
    vec_muts(&mut m, "openings.constants", |p: &mut Pwpi| Some(&mut p.proof.openings.constants), e0);
    vec_muts(&mut m, "openings.plonk_sigmas", |p: &mut Pwpi| Some(&mut p.proof.openings.plonk_sigmas), e0);
    vec_muts(&mut m, "openings.wires", |p: &mut Pwpi| Some(&mut p.proof.openings.wires), e0);
    vec_muts(&mut m, "openings.plonk_zs", |p: &mut Pwpi| Some(&mut p.proof.openings.plonk_zs), e0);
    vec_muts(&mut m, "openings.plonk_zs_next", |p: &mut Pwpi| Some(&mut p.proof.openings.plonk_zs_next), e0);
    vec_muts(&mut m, "openings.partial_products", |p: &mut Pwpi| Some(&mut p.proof.openings.partial_products), e0);
    vec_muts(&mut m, "openings.quotient_polys", |p: &mut Pwpi| Some(&mut p.proof.openings.quotient_polys), e0);
    vec_muts(&mut m, "openings.lookup_zs", |p: &mut Pwpi| Some(&mut p.proof.openings.lookup_zs), e0);
    vec_muts(&mut m, "openings.lookup_zs_next", |p: &mut Pwpi| Some(&mut p.proof.openings.lookup_zs_next), e0);
    vec_muts(&mut m, "public_inputs", |p: &mut Pwpi| Some(&mut p.public_inputs), F::ZERO);
    vec_muts(&mut m, "final_poly", |p: &mut Pwpi| Some(&mut p.proof.opening_proof.final_poly.coeffs), e0);
    // one element MOVED from one opening vector to another: every total (all openings, the batch at zeta, the
    // batch at g*zeta) keeps its length, only the individual vectors are wrong
    fn opening_vec(p: &mut Pwpi, k: usize) -> &mut Vec<QuadraticExtension<F>> {
        let o = &mut p.proof.openings;
        match k { 0 => &mut o.constants, 1 => &mut o.plonk_sigmas, 2 => &mut o.wires, 3 => &mut o.plonk_zs, 4 => &mut o.plonk_zs_next,
                  5 => &mut o.partial_products, 6 => &mut o.quotient_polys, 7 => &mut o.lookup_zs, _ => &mut o.lookup_zs_next }
    }
    const ONAMES: [&str; 9] = ["constants", "plonk_sigmas", "wires", "plonk_zs", "plonk_zs_next", "partial_products", "quotient_polys", "lookup_zs", "lookup_zs_next"];
    for a in 0..9usize {
        for b in 0..9usize {
            if a == b { continue; }
            m.push((format!("openings: move last of {} to {}", ONAMES[a], ONAMES[b]), Box::new(move |p| {
                if let Some(x) = opening_vec(p, a).pop() { opening_vec(p, b).push(x) } else { let z = QuadraticExtension::<F>::ZERO; opening_vec(p, b).push(z); opening_vec(p, b).push(z) }
            })));
        }
    }
    m.push(("caps: move last of wires_cap to quotient_polys_cap".into(), Box::new(|p| { if let Some(x) = p.proof.wires_cap.0.pop() { p.proof.quotient_polys_cap.0.push(x) } })));
    m.push(("commit_phase_merkle_caps: empty".into(), Box::new(|p| p.proof.opening_proof.commit_phase_merkle_caps.clear())));
    m.push(("commit_phase_merkle_caps: drop last".into(), Box::new(|p| { p.proof.opening_proof.commit_phase_merkle_caps.pop(); })));
    m.push(("commit_phase_merkle_caps: duplicate last".into(), Box::new(|p| {
        let v = &mut p.proof.opening_proof.commit_phase_merkle_caps;
        if let Some(l) = v.last().cloned() { v.push(l) }
    })));
    for ci in 0..ncaps {
        vec_muts(&mut m, &format!("commit cap {ci}"), move |p: &mut Pwpi| p.proof.opening_proof.commit_phase_merkle_caps.get_mut(ci).map(|c| &mut c.0), h0);
        m.push((format!("commit cap {ci}: length 3"), Box::new(move |p| {
            if let Some(c) = p.proof.opening_proof.commit_phase_merkle_caps.get_mut(ci) { c.0 = vec![HashOut::<F>::ZERO; 3] }
        })));
    }
    m.push(("query_round_proofs: empty".into(), Box::new(|p| p.proof.opening_proof.query_round_proofs.clear())));
    m.push(("query_round_proofs: drop last".into(), Box::new(|p| { p.proof.opening_proof.query_round_proofs.pop(); })));
    m.push(("query_round_proofs: duplicate last".into(), Box::new(|p| {
        let v = &mut p.proof.opening_proof.query_round_proofs;
        if let Some(l) = v.last().cloned() { v.push(l) }
    })));
    for ri in [0usize, nrounds.saturating_sub(1)] {
        m.push((format!("round {ri} evals_proofs: empty"), Box::new(move |p| {
            if let Some(q) = p.proof.opening_proof.query_round_proofs.get_mut(ri) { q.initial_trees_proof.evals_proofs.clear() }
        })));
        m.push((format!("round {ri} evals_proofs: drop last"), Box::new(move |p| {
            if let Some(q) = p.proof.opening_proof.query_round_proofs.get_mut(ri) { q.initial_trees_proof.evals_proofs.pop(); }
        })));
        m.push((format!("round {ri} evals_proofs: duplicate last"), Box::new(move |p| {
            if let Some(q) = p.proof.opening_proof.query_round_proofs.get_mut(ri) {
                let v = &mut q.initial_trees_proof.evals_proofs;
                if let Some(l) = v.last().cloned() { v.push(l) }
            }
        })));
        for oi in 0..4usize {
            vec_muts(&mut m, &format!("round {ri} oracle {oi} evals"), move |p: &mut Pwpi| {
                p.proof.opening_proof.query_round_proofs.get_mut(ri).and_then(|q| q.initial_trees_proof.evals_proofs.get_mut(oi)).map(|e| &mut e.0)
            }, F::ZERO);
            vec_muts(&mut m, &format!("round {ri} oracle {oi} siblings"), move |p: &mut Pwpi| {
                p.proof.opening_proof.query_round_proofs.get_mut(ri).and_then(|q| q.initial_trees_proof.evals_proofs.get_mut(oi)).map(|e| &mut e.1.siblings)
            }, h0);
        }
        // moves between neighbouring oracles / steps of the round (totals unchanged)
        for oi in 0..3usize {
            for dir in 0..2usize {
                let (from, to) = if dir == 0 { (oi, oi + 1) } else { (oi + 1, oi) };
                m.push((format!("round {ri}: move last leaf value of oracle {from} to oracle {to}"), Box::new(move |p| {
                    if let Some(q) = p.proof.opening_proof.query_round_proofs.get_mut(ri) {
                        let ep = &mut q.initial_trees_proof.evals_proofs;
                        if from < ep.len() && to < ep.len() { if let Some(x) = ep[from].0.pop() { ep[to].0.push(x) } }
                    }
                })));
                m.push((format!("round {ri}: move last sibling of oracle {from} to oracle {to}"), Box::new(move |p| {
                    if let Some(q) = p.proof.opening_proof.query_round_proofs.get_mut(ri) {
                        let ep = &mut q.initial_trees_proof.evals_proofs;
                        if from < ep.len() && to < ep.len() { if let Some(x) = ep[from].1.siblings.pop() { ep[to].1.siblings.push(x) } }
                    }
                })));
            }
        }
        for si in 0..nsteps.saturating_sub(1) {
            for dir in 0..2usize {
                let (from, to) = if dir == 0 { (si, si + 1) } else { (si + 1, si) };
                m.push((format!("round {ri}: move last evaluation of step {from} to step {to}"), Box::new(move |p| {
                    if let Some(q) = p.proof.opening_proof.query_round_proofs.get_mut(ri) {
                        if from < q.steps.len() && to < q.steps.len() { if let Some(x) = q.steps[from].evals.pop() { q.steps[to].evals.push(x) } }
                    }
                })));
                m.push((format!("round {ri}: move last sibling of step {from} to step {to}"), Box::new(move |p| {
                    if let Some(q) = p.proof.opening_proof.query_round_proofs.get_mut(ri) {
                        if from < q.steps.len() && to < q.steps.len() { if let Some(x) = q.steps[from].merkle_proof.siblings.pop() { q.steps[to].merkle_proof.siblings.push(x) } }
                    }
                })));
            }
        }
        m.push((format!("round {ri} steps: empty"), Box::new(move |p| {
            if let Some(q) = p.proof.opening_proof.query_round_proofs.get_mut(ri) { q.steps.clear() }
        })));
        m.push((format!("round {ri} steps: drop last"), Box::new(move |p| {
            if let Some(q) = p.proof.opening_proof.query_round_proofs.get_mut(ri) { q.steps.pop(); }
        })));
        m.push((format!("round {ri} steps: duplicate last"), Box::new(move |p| {
            if let Some(q) = p.proof.opening_proof.query_round_proofs.get_mut(ri) {
                if let Some(l) = q.steps.last().cloned() { q.steps.push(l) }
            }
        })));
        for si in 0..nsteps {
            vec_muts(&mut m, &format!("round {ri} step {si} evals"), move |p: &mut Pwpi| {
                p.proof.opening_proof.query_round_proofs.get_mut(ri).and_then(|q| q.steps.get_mut(si)).map(|s| &mut s.evals)
            }, e0);
            vec_muts(&mut m, &format!("round {ri} step {si} siblings"), move |p: &mut Pwpi| {
                p.proof.opening_proof.query_round_proofs.get_mut(ri).and_then(|q| q.steps.get_mut(si)).map(|s| &mut s.merkle_proof.siblings)
            }, h0);
        }
    }
    m
}

type Cp = CompressedProofWithPublicInputs<F, C, D>;

fn compressed_mutations(nsteps: usize) -> Vec<Mut<Cp>> {
    let mut m: Vec<Mut<Cp>> = vec![];
    let h0 = HashOut::<F>::ZERO;
    let e0 = QuadraticExtension::<F>::ZERO;
    vec_muts(&mut m, "wires_cap", |p: &mut Cp| Some(&mut p.proof.wires_cap.0), h0);
    m.push(("wires_cap: length 3".into(), Box::new(|p| { p.proof.wires_cap.0 = vec![HashOut::<F>::ZERO; 3] })));
    vec_muts(&mut m, "quotient_polys_cap", |p: &mut Cp| Some(&mut p.proof.quotient_polys_cap.0), h0);
    vec_muts(&mut m, "openings.constants", |p: &mut Cp| Some(&mut p.proof.openings.constants), e0);
    vec_muts(&mut m, "openings.wires", |p: &mut Cp| Some(&mut p.proof.openings.wires), e0);
    vec_muts(&mut m, "openings.plonk_zs", |p: &mut Cp| Some(&mut p.proof.openings.plonk_zs), e0);
    vec_muts(&mut m, "openings.plonk_zs_next", |p: &mut Cp| Some(&mut p.proof.openings.plonk_zs_next), e0);
    vec_muts(&mut m, "openings.partial_products", |p: &mut Cp| Some(&mut p.proof.openings.partial_products), e0);
    vec_muts(&mut m, "openings.quotient_polys", |p: &mut Cp| Some(&mut p.proof.openings.quotient_polys), e0);
    vec_muts(&mut m, "openings.plonk_sigmas", |p: &mut Cp| Some(&mut p.proof.openings.plonk_sigmas), e0);
    vec_muts(&mut m, "public_inputs", |p: &mut Cp| Some(&mut p.public_inputs), F::ZERO);
    vec_muts(&mut m, "final_poly", |p: &mut Cp| Some(&mut p.proof.opening_proof.final_poly.coeffs), e0);
    m.push(("commit_phase_merkle_caps: drop last".into(), Box::new(|p| { p.proof.opening_proof.commit_phase_merkle_caps.pop(); })));
    m.push(("commit_phase_merkle_caps: empty".into(), Box::new(|p| p.proof.opening_proof.commit_phase_merkle_caps.clear())));
    m.push(("initial_trees_proofs: emptied".into(), Box::new(|p| p.proof.opening_proof.query_round_proofs.initial_trees_proofs.clear())));
    m.push(("initial_trees_proofs: one key removed".into(), Box::new(|p| {
        let mp = &mut p.proof.opening_proof.query_round_proofs.initial_trees_proofs;
        if let Some(k) = mp.keys().min().copied() { mp.remove(&k); }
    })));
    m.push(("initial_trees_proofs: extra key".into(), Box::new(|p| {
        let mp = &mut p.proof.opening_proof.query_round_proofs.initial_trees_proofs;
        if let Some(k) = mp.keys().min().copied() { let v = mp[&k].clone(); mp.insert(usize::MAX / 3, v); }
    })));
    m.push(("initial proofs: first entry evals_proofs emptied".into(), Box::new(|p| {
        let mp = &mut p.proof.opening_proof.query_round_proofs.initial_trees_proofs;
        if let Some(k) = mp.keys().min().copied() { mp.get_mut(&k).unwrap().evals_proofs.clear() }
    })));
    m.push(("initial proofs: first entry oracle 1 evals short".into(), Box::new(|p| {
        let mp = &mut p.proof.opening_proof.query_round_proofs.initial_trees_proofs;
        if let Some(k) = mp.keys().min().copied() { if let Some(e) = mp.get_mut(&k).unwrap().evals_proofs.get_mut(1) { e.0.pop(); } }
    })));
    m.push(("initial proofs: every sibling list one longer".into(), Box::new(|p| {
        for v in p.proof.opening_proof.query_round_proofs.initial_trees_proofs.values_mut() {
            for e in v.evals_proofs.iter_mut() { e.1.siblings.push(HashOut::<F>::ZERO) }
        }
    })));
    m.push(("initial proofs: every sibling list emptied".into(), Box::new(|p| {
        for v in p.proof.opening_proof.query_round_proofs.initial_trees_proofs.values_mut() {
            for e in v.evals_proofs.iter_mut() { e.1.siblings.clear() }
        }
    })));
    m.push(("steps: outer list emptied".into(), Box::new(|p| p.proof.opening_proof.query_round_proofs.steps.clear())));
    m.push(("steps: outer list drop last".into(), Box::new(|p| { p.proof.opening_proof.query_round_proofs.steps.pop(); })));
    for si in 0..nsteps {
        m.push((format!("steps[{si}]: map emptied"), Box::new(move |p| {
            if let Some(mp) = p.proof.opening_proof.query_round_proofs.steps.get_mut(si) { mp.clear() }
        })));
        m.push((format!("steps[{si}]: one key removed"), Box::new(move |p| {
            if let Some(mp) = p.proof.opening_proof.query_round_proofs.steps.get_mut(si) {
                if let Some(k) = mp.keys().min().copied() { mp.remove(&k); }
            }
        })));
        m.push((format!("steps[{si}]: first entry evals drop last"), Box::new(move |p| {
            if let Some(mp) = p.proof.opening_proof.query_round_proofs.steps.get_mut(si) {
                if let Some(k) = mp.keys().min().copied() { mp.get_mut(&k).unwrap().evals.pop(); }
            }
        })));
        m.push((format!("steps[{si}]: first entry evals one more"), Box::new(move |p| {
            if let Some(mp) = p.proof.opening_proof.query_round_proofs.steps.get_mut(si) {
                if let Some(k) = mp.keys().min().copied() { mp.get_mut(&k).unwrap().evals.push(QuadraticExtension::<F>::ZERO); }
            }
        })));
        m.push((format!("steps[{si}]: first entry siblings emptied"), Box::new(move |p| {
            if let Some(mp) = p.proof.opening_proof.query_round_proofs.steps.get_mut(si) {
                if let Some(k) = mp.keys().min().copied() { mp.get_mut(&k).unwrap().merkle_proof.siblings.clear(); }
            }
        })));
    }
    // the redundant index list is recomputed, never read: edits must not matter (expected ok)
    m.push(("indices: emptied (redundant list)".into(), Box::new(|p| p.proof.opening_proof.query_round_proofs.indices.clear())));
    m
}

fn outcome<T>(f: impl FnOnce() -> anyhow::Result<T>) -> String {
    match catch_unwind(AssertUnwindSafe(f)) {
        Ok(Ok(_)) => "ok".into(),
        Ok(Err(_)) => "err".into(),
        Err(_) => crate::rng::panic_site(),
    }
}

pub fn run(seed: u64, tier: &str, w: &mut dyn Write) -> usize {
    let mut r = Rng::new(seed ^ 0xC18);
    let cfgs = configs();
    let mut n = 0;
    // base proofs: (config index, gadget families)
    let bases: Vec<(usize, u32)> = if tier == "thorough" {
        vec![(0, 7), (3, 31), (6, 3), (1, 15), (4, 17), (2, 1)]
    } else {
        vec![(0, 7), (3, 31), (6, 3)]
    };
    for (bi, (ci, kinds)) in bases.iter().enumerate() {
        let p = gen_program(&mut r, 12 + 6 * bi, *kinds);
        let b = match build_and_prove(&p, &cfgs[*ci].1) { Ok(b) => b, Err(_) => continue };
        let fp = &b.data.common.fri_params;
        let nrounds = fp.config.num_query_rounds;
        let nsteps = fp.reduction_arity_bits.len();
        // ---- entry 0: plain verify
        writeln!(w, "c18 0 {bi} 0 = {}  # unmodified", outcome(|| b.data.verify(b.proof.clone()))).unwrap();
        n += 1;
        for (mi, (name, f)) in plain_mutations(nrounds, nsteps, nsteps).iter().enumerate() {
            let mut q = b.proof.clone();
            f(&mut q);
            if q == b.proof { continue; }
            writeln!(w, "c18 0 {bi} {} = {}  # {}", mi + 1, outcome(|| b.data.verify(q)), name).unwrap();
            n += 1;
        }
        // ---- entry 1: compressed verify
        let comp = match catch_unwind(AssertUnwindSafe(|| b.data.compress(b.proof.clone()))) {
            Ok(Ok(c)) => c,
            _ => { writeln!(w, "c18 1 {bi} 0 = panic  # compress of an accepted proof failed").unwrap(); n += 1; continue }
        };
        writeln!(w, "c18 1 {bi} 0 = {}  # unmodified", outcome(|| b.data.verify_compressed(comp.clone()))).unwrap();
        n += 1;
        for (mi, (name, f)) in compressed_mutations(nsteps).iter().enumerate() {
            let mut q = comp.clone();
            f(&mut q);
            if q == comp { continue; }
            let exp_ok = name.contains("redundant");
            let o = outcome(|| b.data.verify_compressed(q));
            writeln!(w, "c18 1 {bi} {} = {}  # {}{}", mi + 1, o, name, if exp_ok { " [expect ok]" } else { "" }).unwrap();
            n += 1;
        }
        // ---- entry 2 / 3: byte decoders (then verification of whatever decodes)
        let bytes = b.proof.to_bytes();
        let cbytes = comp.to_bytes();
        let dec = |bs: Vec<u8>| -> String {
            let common = &b.data.common;
            match catch_unwind(AssertUnwindSafe(|| ProofWithPublicInputs::<F, C, D>::from_bytes(bs, common))) {
                Err(_) => format!("decode-{}", crate::rng::panic_site()),
                Ok(Err(_)) => "err".into(),
                Ok(Ok(p)) => if p == b.proof { "ok".into() } else {
                    let o = outcome(|| b.data.verify(p));
                    if o == "ok" { "accepted-other".into() } else { o }
                },
            }
        };
        let cdec = |bs: Vec<u8>| -> String {
            let common = &b.data.common;
            match catch_unwind(AssertUnwindSafe(|| CompressedProofWithPublicInputs::<F, C, D>::from_bytes(bs, common))) {
                Err(_) => format!("decode-{}", crate::rng::panic_site()),
                Ok(Err(_)) => "err".into(),
                Ok(Ok(p)) => if p == comp { "ok".into() } else {
                    let o = outcome(|| b.data.verify_compressed(p));
                    if o == "ok" { "accepted-other".into() } else { o }
                },
            }
        };
        writeln!(w, "c18 2 {bi} 0 = {}  # unmodified bytes", dec(bytes.clone())).unwrap();
        writeln!(w, "c18 3 {bi} 0 = {}  # unmodified bytes", cdec(cbytes.clone())).unwrap();
        n += 2;
        let nb = if tier == "thorough" { 1500 } else { 250 };
        let mut mid = 1;
        for (entry, base) in [(2usize, &bytes), (3usize, &cbytes)] {
            for k in 0..nb {
                let mut bs = base.clone();
                let desc;
                match k % 6 {
                    0 => { let cut = r.below(bs.len() as u64) as usize; bs.truncate(cut); desc = format!("truncate to {cut}") }
                    1 => { let i = r.below(bs.len() as u64) as usize; let bit = r.below(8); bs[i] ^= 1 << bit; desc = format!("flip bit {bit} of byte {i}") }
                    2 => { let i = r.below(bs.len() as u64) as usize; bs[i] = 0xff; desc = format!("byte {i} := 0xff") }
                    3 => { // overwrite 8 bytes with 0xff (non-canonical field element / huge length)
                        let i = r.below((bs.len() - 8) as u64) as usize; for j in 0..8 { bs[i + j] = 0xff } desc = format!("8 bytes at {i} := 0xff") }
                    4 => { let extra = 1 + r.below(40) as usize; for _ in 0..extra { bs.push(r.next_u64() as u8) } desc = format!("append {extra} bytes") }
                    _ => { let len = r.below(300) as usize; bs = (0..len).map(|_| r.next_u64() as u8).collect(); desc = format!("random {len} bytes") }
                }
                let o = if entry == 2 { dec(bs) } else { cdec(bs) };
                // appended bytes are public inputs: still a different statement, must not verify
                writeln!(w, "c18 {entry} {bi} {mid} = {o}  # {desc}").unwrap();
                mid += 1;
                n += 1;
            }
            // length-field edits: the public-input count (a u64 read from the bytes) and every
            // 8-byte window that holds a small number (candidate length / index fields)
            let npis = b.proof.public_inputs.len();
            let pi_off = base.len() - 8 * (npis + 1);
            let mut offs: Vec<usize> = vec![pi_off];
            let mut k = 0;
            while k + 8 <= base.len() && offs.len() < 60 {
                let v = u64::from_le_bytes(base[k..k + 8].try_into().unwrap());
                if v > 0 && v < 65536 && k != pi_off { offs.push(k); k += 8 } else { k += 1 }
            }
            for off in offs {
                let old = u64::from_le_bytes(base[off..off + 8].try_into().unwrap());
                for newv in [old + 1, old.wrapping_sub(1), 1u64 << 32, 1u64 << 60, u64::MAX, 0] {
                    if newv == old { continue; }
                    let mut bs = base.clone();
                    bs[off..off + 8].copy_from_slice(&newv.to_le_bytes());
                    // announce the case first: an allocation failure aborts the process (not a panic)
                    writeln!(w, "c18try {entry} {bi} {mid} # length-field edit at {off}: {old} -> {newv}").unwrap();
                    w.flush().unwrap();
                    let o = if entry == 2 { dec(bs) } else { cdec(bs) };
                    writeln!(w, "c18 {entry} {bi} {mid} = {o}  # length-field edit at {off}: {old} -> {newv}").unwrap();
                    mid += 1;
                    n += 1;
                }
            }
        }
    }
    n
}
