//! C07 over the QUARTIC extension (D = 4): every built-in gate is generic in the extension degree, the
//! in-tree configurations only ever use D = 2. Per gate and parameterisation:
//!   check 0 count     eval_unfiltered on random extension inputs returns exactly num_constraints() values
//!   check 1 basevsext eval_unfiltered_base_batch on a base row = eval_unfiltered on the embedded row
//!   check 2 lowdeg    gate_testing::test_low_degree (degree <= declared, count = declared)
//!   check 3 circuit   gate_testing::test_eval_fns with a D = 4 configuration (in-circuit = native)
//!   check 4 prove     a D = 4 circuit using the gadgets that instantiate these gates is proved and verified
//! Lines: `d4gate 4 <gate index> <check> = <1|0>` (+ `c07info d4gate <index> <name>`)
use std::io::Write;
use std::panic::{catch_unwind, AssertUnwindSafe};

use plonky2::field::extension::quartic::QuarticExtension;
use plonky2::field::extension::{Extendable, FieldExtension};
use plonky2::field::goldilocks_field::GoldilocksField;
use plonky2::field::types::{Field, Sample};
use plonky2::gates::arithmetic_base::ArithmeticGate;
use plonky2::gates::arithmetic_extension::ArithmeticExtensionGate;
use plonky2::gates::base_sum::BaseSumGate;
use plonky2::gates::constant::ConstantGate;
use plonky2::gates::coset_interpolation::CosetInterpolationGate;
use plonky2::gates::exponentiation::ExponentiationGate;
use plonky2::gates::gate::Gate;
use plonky2::gates::gate_testing::{test_eval_fns, test_low_degree};
use plonky2::gates::multiplication_extension::MulExtensionGate;
use plonky2::gates::poseidon::PoseidonGate;
use plonky2::gates::poseidon_mds::PoseidonMdsGate;
use plonky2::gates::public_input::PublicInputGate;
use plonky2::gates::random_access::RandomAccessGate;
use plonky2::gates::reducing::ReducingGate;
use plonky2::gates::reducing_extension::ReducingExtensionGate;
use plonky2::hash::hash_types::HashOut;
use plonky2::hash::poseidon::PoseidonHash;
use plonky2::iop::witness::{PartialWitness, WitnessWrite};
use plonky2::plonk::circuit_builder::CircuitBuilder;
use plonky2::plonk::circuit_data::CircuitConfig;
use plonky2::plonk::config::GenericConfig;
use plonky2::plonk::vars::{EvaluationVars, EvaluationVarsBaseBatch};

use crate::rng::Rng;

type F = GoldilocksField;
const D4: usize = 4;
type FE4 = QuarticExtension<F>;

#[derive(Debug, Copy, Clone, Default, Eq, PartialEq)]
pub struct Quartic;
impl GenericConfig<4> for Quartic {
    type F = GoldilocksField;
    type FE = QuarticExtension<GoldilocksField>;
    type Hasher = PoseidonHash;
    type InnerHasher = PoseidonHash;
}

fn checks<G: Gate<F, D4>>(w: &mut dyn Write, idx: usize, name: &str, mk: impl Fn() -> G) -> usize {
    writeln!(w, "c07info d4gate {idx} {name}").unwrap();
    let mut line = |check: usize, ok: bool| { writeln!(w, "d4gate 4 {idx} {check} = {}", ok as u8).unwrap(); };
    // 0: count on extension inputs
    let g = mk();
    let ok0 = catch_unwind(AssertUnwindSafe(|| {
        let wires = FE4::rand_vec(g.num_wires());
        let consts = FE4::rand_vec(g.num_constants());
        let h = HashOut::rand();
        g.eval_unfiltered(EvaluationVars { local_constants: &consts, local_wires: &wires, public_inputs_hash: &h }).len() == g.num_constraints()
    })).unwrap_or(false);
    line(0, ok0);
    // 1: base batch vs extension on an embedded base row
    let g = mk();
    let ok1 = catch_unwind(AssertUnwindSafe(|| {
        let wb = F::rand_vec(g.num_wires());
        let cb = F::rand_vec(g.num_constants());
        let we: Vec<FE4> = wb.iter().map(|&x| <FE4 as FieldExtension<4>>::from_basefield(x)).collect();
        let ce: Vec<FE4> = cb.iter().map(|&x| <FE4 as FieldExtension<4>>::from_basefield(x)).collect();
        let h = HashOut::rand();
        let e = g.eval_unfiltered(EvaluationVars { local_constants: &ce, local_wires: &we, public_inputs_hash: &h });
        let b = g.eval_unfiltered_base_batch(EvaluationVarsBaseBatch::new(1, &cb, &wb, &h));
        b.len() == g.num_constraints() && e == b.into_iter().map(<FE4 as FieldExtension<4>>::from_basefield).collect::<Vec<_>>()
    })).unwrap_or(false);
    line(1, ok1);
    // 2: low degree / declared count through the crate's helper
    let g = mk();
    line(2, catch_unwind(AssertUnwindSafe(|| test_low_degree::<F, _, D4>(g))).is_ok());
    // 3: in-circuit evaluator
    let g = mk();
    line(3, matches!(catch_unwind(AssertUnwindSafe(|| test_eval_fns::<F, Quartic, _, D4>(g))), Ok(Ok(()))));
    4
}

/// A circuit over D = 4 that instantiates the extension-degree dependent gates through the gadgets, proved
/// and verified: the prover sizes its constraint buffers from the declared counts.
fn prove_quartic(r: &mut Rng) -> bool {
    catch_unwind(AssertUnwindSafe(|| {
        let mut b = CircuitBuilder::<F, D4>::new(CircuitConfig::standard_recursion_config());
        let mut pw = PartialWitness::new();
        let xs: Vec<_> = (0..6).map(|_| b.add_virtual_extension_target()).collect();
        for x in &xs { pw.set_extension_target(*x, FE4::rand()).unwrap(); }
        let m = b.mul_extension(xs[0], xs[1]);
        let a = b.arithmetic_extension(F::from_canonical_u64(3), F::from_canonical_u64(5), m, xs[2], xs[3]);
        let d = b.div_extension(a, xs[4]);
        // reduce_with_powers (ReducingGate / ReducingExtensionGate)
        let bases: Vec<_> = (0..9).map(|_| b.add_virtual_target()).collect();
        for t in &bases { pw.set_target(*t, F::rand()).unwrap(); }
        let mut rf = plonky2::util::reducing::ReducingFactorTarget::new(xs[5]);
        let red = rf.reduce_base(&bases, &mut b);
        let mut rf2 = plonky2::util::reducing::ReducingFactorTarget::new(d);
        let red2 = rf2.reduce(&xs, &mut b);
        // coset interpolation (arity 16: 16 points, intermediates): inputs set on the gate's own routed wires
        // (shift, 16 values, evaluation point); the last D routed wires are the value the generator writes
        let mut cg = CosetInterpolationGate::<F, D4>::new(4);
        cg.degree = 6;
        let nrouted = cg.num_routed_wires();
        let row = b.add_gate(cg, vec![]);
        for col in 0..nrouted - D4 {
            pw.set_target(plonky2::iop::target::Target::wire(row, col), F::from_canonical_u64(1 + r.next_u64() % (crate::rng::P - 1))).unwrap();
        }
        let ev = plonky2::iop::ext_target::ExtensionTarget::<D4>::from_range(row, nrouted - D4..nrouted);
        let _ = red;
        // random access over extension targets, exponentiation, hashing
        let idx = b.add_virtual_target();
        pw.set_target(idx, F::from_canonical_u64(r.below(4))).unwrap();
        let ra = b.random_access_extension(idx, vec![xs[0], xs[1], red2, ev]);
        let e = b.exp_u64(bases[0], 37);
        let h = b.hash_n_to_hash_no_pad::<PoseidonHash>(vec![e, bases[1], ra.0[0], ra.0[3]]);
        b.register_public_inputs(&h.elements);
        let data = b.build::<Quartic>();
        let proof = data.prove(pw).unwrap();
        data.verify(proof).is_ok()
    })).unwrap_or(false)
}

pub fn run(r: &mut Rng, tier: &str, w: &mut dyn Write) -> usize {
    let cfg = CircuitConfig::standard_recursion_config();
    let mut n = 0;
    let mut i = 0;
    macro_rules! gate { ($name:expr, $g:expr) => {{ n += checks(w, i, $name, || $g); i += 1; }}; }
    gate!("ArithmeticExtensionGate", ArithmeticExtensionGate::<D4>::new_from_config(&cfg));
    gate!("MulExtensionGate", MulExtensionGate::<D4>::new_from_config(&cfg));
    gate!("ArithmeticGate", ArithmeticGate::new_from_config(&cfg));
    gate!("ConstantGate", ConstantGate::new(2));
    gate!("PublicInputGate", PublicInputGate);
    gate!("BaseSumGate2x20", BaseSumGate::<2>::new(20));
    gate!("ExponentiationGate", ExponentiationGate::<F, D4>::new_from_config(&cfg));
    gate!("PoseidonGate", PoseidonGate::<F, D4>::new());
    gate!("PoseidonMdsGate", PoseidonMdsGate::<F, D4>::new());
    gate!("RandomAccessGate2", RandomAccessGate::<F, D4>::new_from_config(&cfg, 2));
    gate!("RandomAccessGate4", RandomAccessGate::<F, D4>::new_from_config(&cfg, 4));
    gate!("ReducingGate20", ReducingGate::<D4>::new(20));
    gate!("ReducingExtensionGate10", ReducingExtensionGate::<D4>::new(10));
    // coset interpolation: no intermediates, and the shapes of the FRI arities 8 and 16 (intermediates)
    gate!("CosetInterpolationGate2", CosetInterpolationGate::<F, D4>::new(2));
    for (name, bits, degree) in [("CosetInterpolationGate3deg4", 3usize, 4usize), ("CosetInterpolationGate4deg6", 4, 6), ("CosetInterpolationGate4deg3", 4, 3)] {
        gate!(name, { let mut g = CosetInterpolationGate::<F, D4>::new(bits); g.degree = degree; g });
    }
    if tier == "thorough" {
        gate!("ReducingGate1", ReducingGate::<D4>::new(1));
        gate!("ReducingExtensionGate1", ReducingExtensionGate::<D4>::new(1));
        gate!("RandomAccessGate1", RandomAccessGate::<F, D4>::new_from_config(&cfg, 1));
        gate!("CosetInterpolationGate5deg5", { let mut g = CosetInterpolationGate::<F, D4>::new(5); g.degree = 5; g });
    }
    writeln!(w, "c07info d4gate {i} quartic-circuit-proved").unwrap();
    writeln!(w, "d4gate 4 {i} 4 = {}", prove_quartic(r) as u8).unwrap();
    n + 1
}
