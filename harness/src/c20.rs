//! C20: conditional and cyclic recursion enforce exactly the selected verification.
//! Lines (`res` = 1 iff the case behaves as the property demands):
//!   c20 <inner> cond-b<b>-<v0>-<v1> = <agree> # exp=.. native=<verdict of the SELECTED pair> other=<..> outer=<..>
//!        one outer circuit `conditionally_verify_proof(b, p0, vd0, p1, vd1)`, b a witness bit;
//!        v0 / v1 = "valid" or the name of the alteration applied to that branch
//!   c20 <inner> ordummy-b<b>-<v> = <agree> # ...    `conditionally_verify_proof_or_dummy`
//!   c20 <inner> select-b<b> = <1|0> # ...           `select_proof_with_pis` / `select_verifier_data` outputs
//!   c20 <inner> dummy = <1|0|-> # ...                `dummy_circuit` + `dummy_proof` for the inner shape
//!   c20 cyclic <case> = <1|0> # ...                  chains, verifier-data alterations
use std::io::Write;
use std::panic::{catch_unwind, AssertUnwindSafe};

use hashbrown::HashMap;
use plonky2::field::goldilocks_field::GoldilocksField as F;
use plonky2::field::types::{Field, PrimeField64};
use plonky2::gates::noop::NoopGate;
use plonky2::hash::hash_types::HashOutTarget;
use plonky2::hash::hashing::hash_n_to_hash_no_pad;
use plonky2::hash::poseidon::{PoseidonHash, PoseidonPermutation};
use plonky2::iop::target::{BoolTarget, Target};
use plonky2::iop::witness::{PartialWitness, WitnessWrite};
use plonky2::plonk::circuit_builder::CircuitBuilder;
use plonky2::plonk::circuit_data::{CircuitConfig, CommonCircuitData, VerifierCircuitTarget};
use plonky2::plonk::proof::ProofWithPublicInputsTarget;
use plonky2::recursion::cyclic_recursion::check_cyclic_proof_verifier_data;
use plonky2::recursion::dummy_circuit::{cyclic_base_proof, dummy_circuit, dummy_proof};

use crate::c06::{self, bump, bump_ext, bump_hash, native_verdict, run_outer_with, site, Vd};
use crate::corpus::*;
use crate::dsl::D;
use crate::rng::*;

type Pt = ProofWithPublicInputsTarget<D>;

struct CondOuter { data: Data, b: BoolTarget, pt0: Pt, vd0: VerifierCircuitTarget, pt1: Pt, vd1: VerifierCircuitTarget }

fn build_cond(common: &CommonCircuitData<F, D>) -> Result<CondOuter, String> {
    catch_unwind(AssertUnwindSafe(|| {
        let mut bd = CircuitBuilder::<F, D>::new(CircuitConfig::standard_recursion_config());
        let b = bd.add_virtual_bool_target_safe();
        let h = common.config.fri_config.cap_height;
        let pt0 = bd.add_virtual_proof_with_pis(common);
        let vd0 = bd.add_virtual_verifier_data(h);
        let pt1 = bd.add_virtual_proof_with_pis(common);
        let vd1 = bd.add_virtual_verifier_data(h);
        bd.conditionally_verify_proof::<C>(b, &pt0, &vd0, &pt1, &vd1, common);
        bd.register_public_input(b.target);
        bd.register_public_inputs(&pt0.public_inputs);
        bd.register_public_inputs(&pt1.public_inputs);
        CondOuter { data: bd.build::<C>(), b, pt0, vd0, pt1, vd1 }
    })).map_err(|_| format!("build panicked: {}", site()))
}

struct DummyOuter { data: Data, b: BoolTarget, pt: Pt, vd: VerifierCircuitTarget }

fn build_or_dummy(common: &CommonCircuitData<F, D>) -> Result<DummyOuter, String> {
    build_or_dummy_with(common, CircuitConfig::standard_recursion_config())
}

fn build_or_dummy_with(common: &CommonCircuitData<F, D>, outer_cfg: CircuitConfig) -> Result<DummyOuter, String> {
    catch_unwind(AssertUnwindSafe(|| {
        let mut bd = CircuitBuilder::<F, D>::new(outer_cfg);
        let b = bd.add_virtual_bool_target_safe();
        let pt = bd.add_virtual_proof_with_pis(common);
        let vd = bd.add_virtual_verifier_data(common.config.fri_config.cap_height);
        bd.conditionally_verify_proof_or_dummy::<C>(b, &pt, &vd, common).map_err(|e| e.to_string())?;
        bd.register_public_input(b.target);
        bd.register_public_inputs(&pt.public_inputs);
        Ok(DummyOuter { data: bd.build::<C>(), b, pt, vd })
    })).map_err(|_| format!("build panicked: {}", site()))?
}

/// selected elements exposed by the select-only circuit, in this order
fn select_view(p: &Pwpi, vd: &Vd) -> Vec<F> {
    let mut v = p.public_inputs.clone();
    v.extend(vd.circuit_digest.elements);
    for h in &vd.constants_sigmas_cap.0 { v.extend(h.elements); }
    for h in &p.proof.wires_cap.0 { v.extend(h.elements); }
    for h in &p.proof.quotient_polys_cap.0 { v.extend(h.elements); }
    for e in &p.proof.openings.wires { v.extend(e.0); }
    for e in &p.proof.openings.quotient_polys { v.extend(e.0); }
    for e in &p.proof.opening_proof.final_poly.coeffs { v.extend(e.0); }
    v.push(p.proof.opening_proof.pow_witness);
    let q = p.proof.opening_proof.query_round_proofs.last().unwrap();
    let (leaves, mp) = q.initial_trees_proof.evals_proofs.last().unwrap();
    v.extend(leaves.iter());
    for h in &mp.siblings { v.extend(h.elements); }
    for s in &q.steps { for e in &s.evals { v.extend(e.0); } for h in &s.merkle_proof.siblings { v.extend(h.elements); } }
    v
}

fn select_only(w: &mut dyn Write, name: &str, a: &Built, o: &Built) -> usize {
    let common = &a.data.common;
    let built = catch_unwind(AssertUnwindSafe(|| {
        let mut bd = CircuitBuilder::<F, D>::new(CircuitConfig::standard_recursion_config());
        let b = bd.add_virtual_bool_target_safe();
        let h = common.config.fri_config.cap_height;
        let pt0 = bd.add_virtual_proof_with_pis(common);
        let vd0 = bd.add_virtual_verifier_data(h);
        let pt1 = bd.add_virtual_proof_with_pis(common);
        let vd1 = bd.add_virtual_verifier_data(h);
        let sp = bd.select_proof_with_pis(b, &pt0, &pt1);
        let sv = bd.select_verifier_data(b, &vd0, &vd1);
        let mut t: Vec<Target> = sp.public_inputs.clone();
        t.extend(sv.circuit_digest.elements);
        for h in &sv.constants_sigmas_cap.0 { t.extend(h.elements); }
        for h in &sp.proof.wires_cap.0 { t.extend(h.elements); }
        for h in &sp.proof.quotient_polys_cap.0 { t.extend(h.elements); }
        for e in &sp.proof.openings.wires { t.extend(e.0); }
        for e in &sp.proof.openings.quotient_polys { t.extend(e.0); }
        for e in &sp.proof.opening_proof.final_poly.0 { t.extend(e.0); }
        t.push(sp.proof.opening_proof.pow_witness);
        let q = sp.proof.opening_proof.query_round_proofs.last().unwrap();
        let (leaves, mp) = q.initial_trees_proof.evals_proofs.last().unwrap();
        t.extend(leaves.iter());
        for h in &mp.siblings { t.extend(h.elements); }
        for s in &q.steps { for e in &s.evals { t.extend(e.0); } for h in &s.merkle_proof.siblings { t.extend(h.elements); } }
        bd.register_public_inputs(&t);
        (bd.build::<C>(), b, pt0, vd0, pt1, vd1)
    }));
    let (data, b, pt0, vd0, pt1, vd1) = match built {
        Ok(x) => x,
        Err(_) => { writeln!(w, "c20 {name} select-build = 0 # {}", site()).unwrap(); return 1; }
    };
    let mut n = 0;
    for bit in [true, false] {
        let (sel_p, sel_vd) = if bit { (&a.proof, &a.data.verifier_only) } else { (&o.proof, &o.data.verifier_only) };
        let exp = select_view(sel_p, sel_vd);
        let out = run_outer_with(&data, &|pw| {
            pw.set_bool_target(b, bit)?;
            pw.set_proof_with_pis_target(&pt0, &a.proof)?;
            pw.set_verifier_data_target(&vd0, &a.data.verifier_only)?;
            pw.set_proof_with_pis_target(&pt1, &o.proof)?;
            pw.set_verifier_data_target(&vd1, &o.data.verifier_only)
        }, &exp, true);
        writeln!(w, "c20 {name} select-b{} = {} # exp=1 selected_elements={} outer={}", bit as u8, out.ok as u8, exp.len(), out.what).unwrap();
        n += 1;
    }
    n
}

/// a few alterations of (proof, verifier data) that the native verifier rejects
fn invalid_variants(r: &mut Rng, b: &Built, other_vd: &Vd, thorough: bool) -> Vec<(String, Pwpi, Vd)> {
    let vd = b.data.verifier_only.clone();
    let mut v = vec![];
    let mut p = b.proof.clone();
    let i = r.below(p.proof.openings.wires.len() as u64) as usize;
    bump_ext(&mut p.proof.openings.wires[i], r);
    v.push(("opening".to_string(), p, vd.clone()));
    v.push(("othervd".to_string(), b.proof.clone(), other_vd.clone()));
    if thorough {
        let mut p = b.proof.clone();
        let q = r.below(p.proof.opening_proof.query_round_proofs.len() as u64) as usize;
        bump(&mut p.proof.opening_proof.query_round_proofs[q].initial_trees_proof.evals_proofs[0].0[0]);
        v.push(("leaf".to_string(), p, vd.clone()));
        let mut p = b.proof.clone();
        bump_ext(&mut p.proof.opening_proof.final_poly.coeffs[0], r);
        v.push(("finalpoly".to_string(), p, vd.clone()));
        if !b.proof.public_inputs.is_empty() {
            let mut p = b.proof.clone();
            bump(&mut p.public_inputs[0]);
            v.push(("publicinput".to_string(), p, vd.clone()));
        }
        let mut p = b.proof.clone();
        bump_hash(&mut p.proof.wires_cap.0[0], r);
        v.push(("cap".to_string(), p, vd.clone()));
        for d in 1..200u64 {
            let mut p = b.proof.clone();
            p.proof.opening_proof.pow_witness += F::from_canonical_u64(d);
            if native_verdict(&b.data.common, &vd, &p) == "err:pow" { v.push(("pow".to_string(), p, vd.clone())); break; }
        }
        let mut d2 = vd.clone();
        bump_hash(&mut d2.circuit_digest, r);
        v.push(("digest".to_string(), b.proof.clone(), d2));
    }
    v
}

fn conditional(w: &mut dyn Write, r: &mut Rng, name: &str, a: &Built, o: &Built, thorough: bool) -> usize {
    let common = &a.data.common;
    let mut n = 0;
    let co = match build_cond(common) {
        Ok(c) => c,
        Err(e) => { writeln!(w, "c20 {name} cond-build = 0 # {e}").unwrap(); return 1; }
    };
    let inv0 = invalid_variants(r, a, &o.data.verifier_only, thorough);
    let inv1 = invalid_variants(r, o, &a.data.verifier_only, thorough);
    let valid0 = ("valid".to_string(), a.proof.clone(), a.data.verifier_only.clone());
    let valid1 = ("valid".to_string(), o.proof.clone(), o.data.verifier_only.clone());
    for k in 0..inv0.len().min(inv1.len()) {
        for bit in [true, false] {
            for s0 in [&valid0, &inv0[k]] {
                for s1 in [&valid1, &inv1[k]] {
                    // the all-valid combination once per condition value is enough
                    if k > 0 && s0.0 == "valid" && s1.0 == "valid" { continue; }
                    let n0 = native_verdict(common, &s0.2, &s0.1);
                    let n1 = native_verdict(common, &s1.2, &s1.1);
                    let (nsel, noth) = if bit { (n0, n1) } else { (n1, n0) };
                    let mut exp = vec![F::from_bool(bit)];
                    exp.extend(s0.1.public_inputs.iter());
                    exp.extend(s1.1.public_inputs.iter());
                    let out = run_outer_with(&co.data, &|pw| {
                        pw.set_bool_target(co.b, bit)?;
                        pw.set_proof_with_pis_target(&co.pt0, &s0.1)?;
                        pw.set_verifier_data_target(&co.vd0, &s0.2)?;
                        pw.set_proof_with_pis_target(&co.pt1, &s1.1)?;
                        pw.set_verifier_data_target(&co.vd1, &s1.2)
                    }, &exp, true);
                    let sel_valid = if bit { s0.0 == "valid" } else { s1.0 == "valid" };
                    let agree = (nsel == "ok") == out.ok;
                    writeln!(w, "c20 {name} cond-b{}-{}-{} = {} # exp={} native={} other={} outer={} outer_rows={}", bit as u8, s0.0, s1.0,
                             agree as u8, sel_valid as u8, nsel, noth, out.what, co.data.common.degree()).unwrap();
                    n += 1;
                }
            }
        }
    }
    n
}

fn or_dummy(w: &mut dyn Write, r: &mut Rng, name: &str, a: &Built, o: &Built, thorough: bool) -> usize {
    let common = &a.data.common;
    let mut n = 0;
    let dj = match build_or_dummy(common) {
        Ok(c) => c,
        // only a refusal of dummy_circuit itself (it cannot reproduce this inner shape) is "unsupported"
        Err(e) if e.contains("dummy_circuit.rs") => { writeln!(w, "c20 {name} ordummy-build = - # exp=? unsupported: {e}").unwrap(); return 1; }
        Err(e) => { writeln!(w, "c20 {name} ordummy-build = 0 # exp=1 {e}").unwrap(); return 1; }
    };
    // the same with an outer circuit whose own Merkle caps have another height than the inner circuit's (plain
    // verify_proof supports that; the dummy branch has to use the INNER circuit's cap height for its verifier data)
    for other_cap in [common.config.fri_config.cap_height.saturating_sub(1), common.config.fri_config.cap_height + 1] {
        if other_cap == common.config.fri_config.cap_height { continue; }
        let mut oc = CircuitConfig::standard_recursion_config();
        oc.fri_config.cap_height = other_cap;
        match build_or_dummy_with(common, oc) {
            Err(e) => { writeln!(w, "c20 {name} ordummy-outercap{other_cap}-build = 0 # exp=1 {e}").unwrap(); n += 1; }
            Ok(dj2) => {
                for bit in [true, false] {
                    let mut exp = vec![F::from_bool(bit)];
                    exp.extend(a.proof.public_inputs.iter());
                    let out = run_outer_with(&dj2.data, &|pw| {
                        pw.set_bool_target(dj2.b, bit)?;
                        pw.set_proof_with_pis_target(&dj2.pt, &a.proof)?;
                        pw.set_verifier_data_target(&dj2.vd, &a.data.verifier_only)
                    }, &exp, true);
                    writeln!(w, "c20 {name} ordummy-outercap{other_cap}-b{}-valid = {} # exp=1 native=ok outer={} outer_rows={}", bit as u8, out.ok as u8, out.what,
                             dj2.data.common.degree()).unwrap();
                    n += 1;
                }
            }
        }
    }
    let mut variants = vec![("valid".to_string(), a.proof.clone(), a.data.verifier_only.clone())];
    variants.extend(invalid_variants(r, a, &o.data.verifier_only, thorough));
    for (vn, p, vd) in &variants {
        for bit in [true, false] {
            let nat = if bit { native_verdict(common, vd, p) } else { "ok".to_string() }; // b = 0: the generated dummy proof is verified
            let mut exp = vec![F::from_bool(bit)];
            exp.extend(p.public_inputs.iter());
            let out = run_outer_with(&dj.data, &|pw| {
                pw.set_bool_target(dj.b, bit)?;
                pw.set_proof_with_pis_target(&dj.pt, p)?;
                pw.set_verifier_data_target(&dj.vd, vd)
            }, &exp, true);
            let expv = !bit || vn == "valid";
            writeln!(w, "c20 {name} ordummy-b{}-{} = {} # exp={} native={} outer={} outer_rows={}", bit as u8, vn,
                     ((nat == "ok") == out.ok) as u8, expv as u8, nat, out.what, dj.data.common.degree()).unwrap();
            n += 1;
        }
    }
    n
}

/// `dummy_circuit` / `dummy_proof` for an inner shape: the dummy proof must verify against the dummy
/// circuit, whose common data equal the requested ones. `-` = the library refuses the shape.
fn dummy_for_shape(w: &mut dyn Write, name: &str, common: &CommonCircuitData<F, D>) -> usize {
    let lookups = common.num_lookup_polys != 0;
    let r = catch_unwind(AssertUnwindSafe(|| {
        let dc = dummy_circuit::<F, C, D>(common);
        let mut pis = HashMap::new();
        if common.num_public_inputs > 0 { pis.insert(common.num_public_inputs - 1, F::from_canonical_u64(77)); }
        let dp = dummy_proof::<F, C, D>(&dc, pis).map_err(|e| e.to_string())?;
        let same_common = dc.common == *common;
        let pi_ok = common.num_public_inputs == 0 || dp.public_inputs[common.num_public_inputs - 1] == F::from_canonical_u64(77);
        Ok::<_, String>((verdict(&dc, dp), same_common, pi_ok))
    }));
    match r {
        Ok(Ok((v, same, pi_ok))) => writeln!(w, "c20 {name} dummy = {} # exp=1 verify={v} same_common={} pis_set={} zk={} lookups={}",
                                             (v == "ok" && same && pi_ok) as u8, same as u8, pi_ok as u8, common.config.zero_knowledge as u8, lookups as u8).unwrap(),
        Ok(Err(e)) => writeln!(w, "c20 {name} dummy = 0 # exp=1 dummy_proof_failed={} zk={} lookups={}", e.replace(' ', "_"), common.config.zero_knowledge as u8, lookups as u8).unwrap(),
        Err(_) => writeln!(w, "c20 {name} dummy = - # exp=? refused={} zk={} lookups={} pis={} degree={}", site(), common.config.zero_knowledge as u8,
                           lookups as u8, common.num_public_inputs, common.degree()).unwrap(),
    }
    1
}

// ------------------------------------------------------------------------------------ cyclic
fn common_data_for_recursion() -> CommonCircuitData<F, D> {
    let config = CircuitConfig::standard_recursion_config();
    let builder = CircuitBuilder::<F, D>::new(config.clone());
    let data = builder.build::<C>();
    let mut builder = CircuitBuilder::<F, D>::new(config.clone());
    let proof = builder.add_virtual_proof_with_pis(&data.common);
    let verifier_data = builder.add_virtual_verifier_data(data.common.config.fri_config.cap_height);
    builder.verify_proof::<C>(&proof, &verifier_data, &data.common);
    let data = builder.build::<C>();
    let mut builder = CircuitBuilder::<F, D>::new(config);
    let proof = builder.add_virtual_proof_with_pis(&data.common);
    let verifier_data = builder.add_virtual_verifier_data(data.common.config.fri_config.cap_height);
    builder.verify_proof::<C>(&proof, &verifier_data, &data.common);
    while builder.num_gates() < 1 << 12 {
        builder.add_gate(NoopGate, vec![]);
    }
    builder.build::<C>().common
}

struct Cyclic { data: Data, common: CommonCircuitData<F, D>, condition: BoolTarget, inner: Pt, vdt: VerifierCircuitTarget }

/// The hash-chain circuit of the library's cyclic recursion test.
/// Public inputs: initial hash (4), current hash (4), counter (1), verifier data (4 + 4 * cap).
fn build_cyclic() -> Cyclic {
    let mut builder = CircuitBuilder::<F, D>::new(CircuitConfig::standard_recursion_config());
    let one = builder.one();
    let initial_hash_target = builder.add_virtual_hash();
    builder.register_public_inputs(&initial_hash_target.elements);
    let current_hash_in = builder.add_virtual_hash();
    let current_hash_out = builder.hash_n_to_hash_no_pad::<PoseidonHash>(current_hash_in.elements.to_vec());
    builder.register_public_inputs(&current_hash_out.elements);
    let counter = builder.add_virtual_public_input();
    let mut common_data = common_data_for_recursion();
    let verifier_data_target = builder.add_verifier_data_public_inputs();
    common_data.num_public_inputs = builder.num_public_inputs();
    let condition = builder.add_virtual_bool_target_safe();
    let inner = builder.add_virtual_proof_with_pis(&common_data);
    let pis = &inner.public_inputs;
    let inner_initial = HashOutTarget::try_from(&pis[0..4]).unwrap();
    let inner_latest = HashOutTarget::try_from(&pis[4..8]).unwrap();
    let inner_counter = pis[8];
    builder.connect_hashes(initial_hash_target, inner_initial);
    // select_hash is crate-private: the same four element-wise selects
    let actual_hash_in = HashOutTarget {
        elements: core::array::from_fn(|i| builder.select(condition, inner_latest.elements[i], initial_hash_target.elements[i])),
    };
    builder.connect_hashes(current_hash_in, actual_hash_in);
    let new_counter = builder.mul_add(condition.target, inner_counter, one);
    builder.connect(counter, new_counter);
    builder.conditionally_verify_cyclic_proof_or_dummy::<C>(condition, &inner, &common_data).unwrap();
    let data = builder.build::<C>();
    Cyclic { data, common: common_data, condition, inner, vdt: verifier_data_target }
}

fn vd_slice(vd: &Vd) -> Vec<F> {
    let mut v = vd.circuit_digest.elements.to_vec();
    for h in &vd.constants_sigmas_cap.0 { v.extend(h.elements); }
    v
}

fn iterate_poseidon(init: [F; 4], n: usize) -> [F; 4] {
    let mut cur = init;
    for _ in 0..n { cur = hash_n_to_hash_no_pad::<F, PoseidonPermutation<F>>(&cur).elements; }
    cur
}

/// one step of the chain; `claimed_vd` is what the prover puts into the verifier-data public inputs
fn cyclic_step(cy: &Cyclic, prev: Option<&Pwpi>, initial: [F; 4], claimed_vd: &Vd) -> Result<Pwpi, String> {
    let r = catch_unwind(AssertUnwindSafe(|| {
        let mut pw = PartialWitness::new();
        match prev {
            None => {
                pw.set_bool_target(cy.condition, false).map_err(|e| e.to_string())?;
                let base = cyclic_base_proof(&cy.common, claimed_vd, initial.into_iter().enumerate().collect());
                pw.set_proof_with_pis_target::<C, D>(&cy.inner, &base).map_err(|e| e.to_string())?;
            }
            Some(p) => {
                pw.set_bool_target(cy.condition, true).map_err(|e| e.to_string())?;
                pw.set_proof_with_pis_target(&cy.inner, p).map_err(|e| e.to_string())?;
            }
        }
        pw.set_verifier_data_target(&cy.vdt, claimed_vd).map_err(|e| e.to_string())?;
        cy.data.prove(pw).map_err(|e| e.to_string())
    }));
    match r { Ok(x) => x, Err(_) => Err(site()) }
}

fn check_vd(cy: &Cyclic, p: &Pwpi, vd: &Vd) -> &'static str {
    match catch_unwind(AssertUnwindSafe(|| check_cyclic_proof_verifier_data(p, vd, &cy.data.common))) {
        Ok(Ok(())) => "ok", Ok(Err(_)) => "err", Err(_) => "panic",
    }
}

fn sh(e: &str) -> String { e.chars().take(60).map(|c| if c.is_ascii_alphanumeric() { c } else { '_' }).collect() }

fn cyclic(w: &mut dyn Write, r: &mut Rng, len: usize, thorough: bool) -> usize {
    let mut n = 0;
    let cy = match catch_unwind(AssertUnwindSafe(build_cyclic)) {
        Ok(c) => c,
        Err(_) => { writeln!(w, "c20 cyclic build = 0 # {}", site()).unwrap(); return 1; }
    };
    let vd = cy.data.verifier_only.clone();
    let slice = vd_slice(&vd);
    let npi = cy.data.common.num_public_inputs;
    let start = npi - slice.len();
    let initial = [F::from_canonical_u64(r.next_u64() % P), F::ONE, F::TWO, F::from_canonical_u64(3)];
    let mut chain: Vec<Pwpi> = vec![];
    for i in 0..len {
        match cyclic_step(&cy, chain.last(), initial, &vd) {
            Ok(p) => {
                let ver = verdict(&cy.data, p.clone());
                let chk = check_vd(&cy, &p, &vd);
                let tail_ok = p.public_inputs[start..] == slice[..];
                let counter = p.public_inputs[8].to_canonical_u64();
                let hash_ok = p.public_inputs[4..8] == iterate_poseidon(initial, i + 1)[..] && p.public_inputs[0..4] == initial[..];
                let ok = ver == "ok" && chk == "ok" && tail_ok && counter == (i + 1) as u64 && hash_ok;
                writeln!(w, "c20 cyclic chain{} = {} # exp=1 verify={ver} check={chk} vd_in_pis={} counter={counter} hash_ok={} rows={}", i + 1, ok as u8,
                         tail_ok as u8, hash_ok as u8, cy.data.common.degree()).unwrap();
                n += 1;
                chain.push(p);
            }
            Err(e) => { writeln!(w, "c20 cyclic chain{} = 0 # exp=1 prove_failed={}", i + 1, sh(&e)).unwrap(); n += 1; break; }
        }
    }
    // every element of the verifier-data slice of the public inputs, on the last proof (and on all in thorough)
    let targets: Vec<usize> = if thorough { (0..chain.len()).collect() } else { chain.len().checked_sub(1).into_iter().collect() };
    for &ci in &targets {
        let p = &chain[ci];
        for j in 0..slice.len() {
            let mut q = p.clone();
            q.public_inputs[start + j] += if r.coin() { F::ONE } else { F::from_canonical_u64(1 + r.next_u64() % (P - 1)) };
            let chk = check_vd(&cy, &q, &vd);
            let ver = verdict(&cy.data, q);
            writeln!(w, "c20 cyclic alter-pi{j}-chain{} = {} # exp=0 check={chk} verify={ver}", ci + 1, (chk == "err") as u8).unwrap();
            n += 1;
        }
        // the same for the verifier data handed to the check
        for j in 0..slice.len() {
            let mut v2 = vd.clone();
            if j < 4 { v2.circuit_digest.elements[j] += F::ONE } else { v2.constants_sigmas_cap.0[(j - 4) / 4].elements[(j - 4) % 4] += F::ONE }
            let chk = check_vd(&cy, p, &v2);
            writeln!(w, "c20 cyclic alter-vd{j}-chain{} = {} # exp=0 check={chk}", ci + 1, (chk == "err") as u8).unwrap();
            n += 1;
        }
        // too few public inputs
        let mut q = p.clone();
        q.public_inputs.truncate(slice.len() - 1);
        let chk = check_vd(&cy, &q, &vd);
        writeln!(w, "c20 cyclic short-pis-chain{} = {} # exp=0 check={chk}", ci + 1, (chk == "err") as u8).unwrap();
        n += 1;
    }
    // a base proof claiming foreign verifier data: provable and verifying (the circuit cannot know
    // its own key), rejected by the out-of-circuit check; and it cannot be continued
    // ... for a foreign value in EVERY part of the verifier data: the digest, the first / a middle / the last
    // entry of the constants-sigmas cap (each entry is connected to the inner proof's copy separately)
    let ncap = vd.constants_sigmas_cap.0.len();
    let mut where_: Vec<Option<usize>> = vec![None, Some(0), Some(ncap - 1)];
    let chh = cy.data.common.config.fri_config.cap_height;
    for k in [chh.saturating_sub(1), chh, ncap / 2] { if k < ncap && !where_.contains(&Some(k)) { where_.push(Some(k)); } }
    if !thorough { where_.truncate(5); }
    for wh in where_ {
    let tagw = match wh { None => "digest".to_string(), Some(k) => format!("cap{k}") };
    let mut bogus = vd.clone();
    match wh { None => bump_hash(&mut bogus.circuit_digest, r), Some(k) => bump_hash(&mut bogus.constants_sigmas_cap.0[k], r) }
    match cyclic_step(&cy, None, initial, &bogus) {
        Ok(p) => {
            let ver = verdict(&cy.data, p.clone());
            let chk = check_vd(&cy, &p, &vd);
            let carries = p.public_inputs[start..] == vd_slice(&bogus)[..];
            writeln!(w, "c20 cyclic foreign-vd-{tagw}-base = {} # exp=0 check={chk} verify={ver} carries_foreign={}", (chk == "err" && carries) as u8, carries as u8).unwrap();
            n += 1;
            for (tag, claimed) in [("real", &vd), ("foreign", &bogus)] {
                let res = cyclic_step(&cy, Some(&p), initial, claimed);
                let (ok, what) = match res {
                    Err(e) => (true, format!("rejected:{}", sh(&e))),
                    // a chain that claims the foreign data consistently can be provable when no FRI query of the inner
                    // proof opens under the altered cap entry (the in-circuit verifier never reads that entry); the
                    // property then rests on the out-of-circuit check, which must reject it.  Claiming the real data
                    // over a proof that carries the foreign data must always be unprovable.
                    Ok(p2) => { let c = check_vd(&cy, &p2, &vd); (tag == "foreign" && c == "err", format!("proved check={c} verify={}", verdict(&cy.data, p2))) }
                };
                writeln!(w, "c20 cyclic foreign-vd-{tagw}-continue-{tag} = {} # exp=0 {}", ok as u8, what).unwrap();
                n += 1;
            }
        }
        Err(e) => { writeln!(w, "c20 cyclic foreign-vd-{tagw}-base = 1 # exp=0 prove_rejected={}", sh(&e)).unwrap(); n += 1; }
    }
    }
    // the base proof carries the verifier data it is given, whatever the caller's map of public inputs says about
    // the positions of the verifier data (a map built from all public inputs of another proof, a zero-filled
    // full-length map, a map with keys in that region only); positions before it carry the map's values
    {
        let other = { let mut b = vd.clone(); bump_hash(&mut b.circuit_digest, r); let k = r.below(ncap as u64) as usize; bump_hash(&mut b.constants_sigmas_cap.0[k], r); b };
        let from_other: Vec<F> = cyclic_base_proof(&cy.data.common, &other, initial.into_iter().enumerate().collect()).public_inputs;
        let maps: Vec<(&str, Vec<(usize, F)>)> = vec![
            ("all-public-inputs-of-a-base-proof-for-other-data", from_other.iter().copied().enumerate().collect()),
            ("zero-filled-full-length", (0..npi).map(|i| (i, F::ZERO)).collect()),
            ("verifier-data-region-only", (start..npi).map(|i| (i, F::from_canonical_u64(r.next_u64() % P))).collect()),
            ("user-region-and-first-verifier-data-position", (0..4).map(|i| (i, initial[i])).chain([(start, F::ONE)]).collect()),
            ("last-position-only", vec![(npi - 1, F::ONE)]),
        ];
        for (name, m) in maps {
            let res = catch_unwind(AssertUnwindSafe(|| cyclic_base_proof(&cy.data.common, &vd, m.iter().copied().collect())));
            match res {
                Ok(bp) => {
                    let tail = bp.public_inputs.len() == npi && bp.public_inputs[start..] == slice[..];
                    let user = m.iter().all(|&(i, v)| i >= start || bp.public_inputs[i] == v);
                    let chk = check_vd(&cy, &bp, &vd);
                    writeln!(w, "c20 cyclic base-proof-map:{name} = {} # exp=1 carries_given_data={} user_part={} check={chk}",
                             (tail && user && chk == "ok") as u8, tail as u8, user as u8).unwrap();
                }
                Err(_) => writeln!(w, "c20 cyclic base-proof-map:{name} = 0 # exp=1 {}", site()).unwrap(),
            }
            n += 1;
        }
    }
    // an altered inner proof cannot be continued either
    if let Some(p) = chain.last() {
        let mut q = p.clone();
        let i = r.below(q.proof.openings.wires.len() as u64) as usize;
        bump_ext(&mut q.proof.openings.wires[i], r);
        let res = cyclic_step(&cy, Some(&q), initial, &vd);
        writeln!(w, "c20 cyclic continue-altered-inner = {} # exp=0 {}", res.is_err() as u8,
                 match res { Err(e) => format!("rejected:{}", sh(&e)), Ok(_) => "proved".into() }).unwrap();
        n += 1;
    }
    n
}

pub fn run(seed: u64, tier: &str, w: &mut dyn Write) -> usize {
    let t0 = std::time::Instant::now();
    let timing = std::env::var("VERIF_TIMING").is_ok();
    let mut r = Rng::new(seed ^ 0xC20);
    let thorough = tier == "thorough";
    let mut n = 0;
    // dummy circuits / proofs for every inner shape of the C06 corpus
    let corpus = c06::inner_corpus("thorough");
    let mut builts = vec![];
    for (iname, icfg, kinds, size) in corpus.iter() {
        let prog = gen_program(&mut r, *size, *kinds);
        match build_and_prove(&prog, icfg) {
            Ok(b) => {
                n += dummy_for_shape(w, iname, &b.data.common);
                builts.push((*iname, prog, icfg.clone(), b));
            }
            Err(e) => { writeln!(w, "c20 {iname} inner-build = 0 # {e}").unwrap(); n += 1; }
        }
    }
    // bare shapes as used by recursion: noop circuits of 2^k rows with p public inputs
    for (k, npi) in [(3usize, 0usize), (5, 4), (8, 17), (12, 0)] {
        if !thorough && k > 8 { continue; }
        let mut bd = CircuitBuilder::<F, D>::new(CircuitConfig::standard_recursion_config());
        for _ in 0..npi { bd.add_virtual_public_input(); }
        while bd.num_gates() < (1 << k) - (1 << (k - 1)) + 1 { bd.add_gate(NoopGate, vec![]); }
        let cd = bd.build::<C>().common;
        n += dummy_for_shape(w, &format!("noop_2e{}_pi{}", cd.degree_bits(), npi), &cd);
    }
    w.flush().unwrap();
    if timing { eprintln!("c20 dummy shapes done {:?}", t0.elapsed()); }
    // conditional verification
    let picks: Vec<&str> = if thorough { vec!["std_small", "arity2_cap1_c3_lookup", "zk_lookup", "fixed_12", "arity1_cap0", "wide_rows"] }
                           else { vec!["std_small", "arity2_cap1_c3_lookup", "zk_lookup", "arity1_cap0"] };   // one shape without and one with lookup tables
    let want = if thorough { 4 } else { 2 };
    let mut done = 0;
    let mut had_lookup = false;
    for (iname, prog, icfg, a) in picks.iter().filter_map(|p| builts.iter().find(|x| x.0 == *p)) {
        if done >= want { break; }
        // quick tier: the second subject must use lookup tables (openings with lookup_zs / next_lookup_zs)
        if !thorough && done == 1 && a.data.common.num_lookup_polys == 0 && !had_lookup && picks.iter().any(|p| p.contains("lookup")) && !iname.contains("arity1") { continue; }
        had_lookup |= a.data.common.num_lookup_polys != 0;
        let o = match build_and_prove(&c06::sibling_program(prog), icfg) {
            Ok(o) if o.data.common == a.data.common && o.data.verifier_only != a.data.verifier_only => o,
            _ => { writeln!(w, "c20 {iname} sibling-build = - # exp=? no same-shape circuit with different verifier data from this program").unwrap(); n += 1; continue; }
        };
        done += 1;
        n += conditional(w, &mut r, iname, a, &o, thorough);
        w.flush().unwrap();
        n += select_only(w, iname, a, &o);
        n += or_dummy(w, &mut r, iname, a, &o, thorough);
        w.flush().unwrap();
    }
    // quick tier: none of the subjects above has a shape that dummy_circuit can reproduce, so the or-dummy variant
    // would go unexercised: run it for one subject that has
    if !thorough {
        if let Some((iname, prog, icfg, a)) = builts.iter().find(|x| x.0 == "fixed_12") {
            if let Ok(o) = build_and_prove(&c06::sibling_program(prog), icfg) {
                if o.data.common == a.data.common && o.data.verifier_only != a.data.verifier_only {
                    n += or_dummy(w, &mut r, iname, a, &o, false);
                    w.flush().unwrap();
                }
            }
        }
    }
    if timing { eprintln!("c20 conditional done {:?}", t0.elapsed()); }
    // cyclic recursion
    n += cyclic(w, &mut r, if thorough { 4 } else { 2 }, thorough);
    if timing { eprintln!("c20 cyclic done {:?}", t0.elapsed()); }
    n
}
