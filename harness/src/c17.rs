//! C17: binary encodings round-trip and restored circuits are interchangeable.
//!
//! Lines written:
//!   c17 <circuit> <case> = <1|0> # detail       implementation-level round trips (see `check_circuit`)
//!   enc_<type> <values> = <bytes>               REAL writers (trait `Write` on Vec<u8>) - replayed by
//!   dec_<type> [<shape>] <bytes> = <values> <unread bytes> | fail      Model/C17Run.v run_enc_* / run_dec_*
//! Field elements in enc/dec lines are raw u64 representations (`GoldilocksField.0`): the writers
//! canonicalise, the readers construct the value without a range check.
use std::collections::BTreeSet;
use std::io::Write;
use std::panic::{catch_unwind, AssertUnwindSafe};

use plonky2::field::extension::quadratic::QuadraticExtension;
use plonky2::field::goldilocks_field::GoldilocksField as F;
use plonky2::field::types::{Field, PrimeField64};
use plonky2::fri::proof::FriProof;
use plonky2::fri::reduction_strategies::FriReductionStrategy;
use plonky2::fri::{FriConfig, FriParams};
use plonky2::gates::noop::NoopGate;
use plonky2::hash::hash_types::HashOut;
use plonky2::hash::merkle_proofs::MerkleProof;
use plonky2::hash::merkle_tree::MerkleCap;
use plonky2::iop::target::BoolTarget;
use plonky2::iop::witness::{PartialWitness, WitnessWrite};
use plonky2::plonk::circuit_builder::CircuitBuilder;
use plonky2::plonk::circuit_data::{CircuitConfig, CircuitData, CommonCircuitData, ProverCircuitData, VerifierCircuitData,
                                   VerifierOnlyCircuitData};
use plonky2::plonk::proof::{CompressedProofWithPublicInputs, OpeningSet};
use plonky2::util::reducing::ReducingFactorTarget;
use plonky2::util::serialization::{Buffer, DefaultGateSerializer, DefaultGeneratorSerializer, IoResult, Read, Remaining,
                                   Write as PWrite};

use crate::corpus::*;
use crate::dsl::{self, Program, D};
use crate::rng::{Rng, P};

type GenSer = DefaultGeneratorSerializer<C, D>;

// ------------------------------------------------------------------------------ registries
/// ids of the generator types registered in `DefaultGeneratorSerializer` (generator_serialization.rs)
const REGISTERED_GENERATORS: [&str; 24] = [
    "ArithmeticBaseGenerator", "ArithmeticExtensionGenerator", "BaseSplitGenerator + Base: 2", "BaseSumGenerator + Base: 2",
    "ConstantGenerator", "CopyGenerator", "DummyProofGenerator", "EqualityGenerator", "ExponentiationGenerator",
    "InterpolationGenerator", "LookupGenerator", "LookupTableGenerator", "LowHighGenerator", "MulExtensionGenerator",
    "NonzeroTestGenerator", "PoseidonGenerator", "PoseidonMdsGenerator", "QuotientGeneratorExtension",
    "RandomAccessGenerator", "RandomValueGenerator", "ReducingGenerator", "ReducingExtensionGenerator", "SplitGenerator",
    "WireSplitGenerator",
];
/// gate types registered in `DefaultGateSerializer` (gate_serialization.rs), as prefixes of `Gate::id()`
const REGISTERED_GATES: [&str; 16] = [
    "ArithmeticGate", "ArithmeticExtensionGate", "BaseSumGate", "ConstantGate", "CosetInterpolationGate",
    "ExponentiationGate", "LookupGate", "LookupTableGate", "MulExtensionGate", "NoopGate", "PoseidonMdsGate",
    "PoseidonGate", "PublicInputGate", "RandomAccessGate", "ReducingExtensionGate", "ReducingGate",
];
fn gate_kind(id: &str) -> String {
    id.split(|c: char| !c.is_ascii_alphanumeric()).next().unwrap_or("").to_string()
}

// ------------------------------------------------------------------------------ circuit-level checks
struct Out<'a> { w: &'a mut dyn Write, n: usize, gens: BTreeSet<String>, gates: BTreeSet<String> }
impl<'a> Out<'a> {
    fn case(&mut self, circuit: &str, case: &str, ok: bool, detail: &str) {
        writeln!(self.w, "c17 {circuit} {case} = {} # {detail}", ok as u8).unwrap();
        self.n += 1;
    }
    fn line(&mut self, op: &str, args: &[u64], res: Option<Vec<u64>>, note: &str) {
        let a = args.iter().map(|x| x.to_string()).collect::<Vec<_>>().join(" ");
        let r = match res { Some(v) => v.iter().map(|x| x.to_string()).collect::<Vec<_>>().join(" "), None => "fail".into() };
        if note.is_empty() { writeln!(self.w, "{op} {a} = {r}").unwrap(); } else { writeln!(self.w, "{op} {a} = {r} # {note}").unwrap(); }
        self.n += 1;
    }
}

fn guarded<T>(f: impl FnOnce() -> Result<T, String>) -> Result<T, String> {
    match catch_unwind(AssertUnwindSafe(f)) { Ok(r) => r, Err(_) => Err(format!("panic {}", crate::rng::panic_site())) }
}
fn io<T>(r: IoResult<T>, what: &str) -> Result<T, String> { r.map_err(|_| format!("{what}: IoError")) }

/// (1) every encoding round-trips and re-encodes to identical bytes; (2) the restored circuit is
/// interchangeable with the original. `make_pw` builds the same inputs for a given circuit data
/// (targets are positional, so the same closure serves the original and the restored circuit).
fn check_circuit(name: &str, data: Data, make_pw: &dyn Fn() -> PartialWitness<F>, out: &mut Out) {
    let gs = DefaultGateSerializer;
    let gens = GenSer::default();
    for g in &data.prover_only.generators { out.gens.insert(g.0.id()); }
    for g in &data.common.gates { out.gates.insert(gate_kind(&g.0.id())); }
    let proof = match guarded(|| data.prove(make_pw()).map_err(|e| e.to_string())) {
        Ok(p) => p,
        Err(e) => { out.case(name, "prove-original", false, &e); return }
    };
    // ---- ProofWithPublicInputs
    let r = guarded(|| {
        let b = proof.to_bytes();
        let back = Pwpi::from_bytes(b.clone(), &data.common).map_err(|e| e.to_string())?;
        if back != proof { return Err("decoded proof differs".into()) }
        if back.to_bytes() != b { return Err("re-encoding differs".into()) }
        Ok(b.len())
    });
    out.case(name, "proof-roundtrip", r.is_ok(), &match &r { Ok(n) => format!("{n} bytes"), Err(e) => e.clone() });
    // ---- CompressedProofWithPublicInputs
    let r = guarded(|| {
        let c = data.compress(proof.clone()).map_err(|e| e.to_string())?;
        let b = c.to_bytes();
        let back = CompressedProofWithPublicInputs::<F, C, D>::from_bytes(b.clone(), &data.common).map_err(|e| e.to_string())?;
        if back != c { return Err("decoded compressed proof differs".into()) }
        if back.to_bytes() != b { return Err("re-encoding differs".into()) }
        data.verify_compressed(back).map_err(|e| format!("decoded compressed proof rejected: {e}"))?;
        Ok(b.len())
    });
    out.case(name, "compressed-proof-roundtrip", r.is_ok(), &match &r { Ok(n) => format!("{n} bytes"), Err(e) => e.clone() });
    // ---- VerifierOnlyCircuitData
    let r = guarded(|| {
        let b = io(data.verifier_only.to_bytes(), "to_bytes")?;
        let back = io(VerifierOnlyCircuitData::<C, D>::from_bytes(b.clone()), "from_bytes")?;
        if back != data.verifier_only { return Err("decoded value differs".into()) }
        if io(back.to_bytes(), "to_bytes")? != b { return Err("re-encoding differs".into()) }
        Ok(b.len())
    });
    out.case(name, "verifier-only-roundtrip", r.is_ok(), &match &r { Ok(n) => format!("{n} bytes"), Err(e) => e.clone() });
    // ---- CommonCircuitData
    let r = guarded(|| {
        let b = io(data.common.to_bytes(&gs), "to_bytes")?;
        let back = io(CommonCircuitData::<F, D>::from_bytes(b.clone(), &gs), "from_bytes")?;
        if back != data.common { return Err("decoded value differs".into()) }
        if io(back.to_bytes(&gs), "to_bytes")? != b { return Err("re-encoding differs".into()) }
        Ok(b.len())
    });
    out.case(name, "common-roundtrip", r.is_ok(), &match &r { Ok(n) => format!("{n} bytes"), Err(e) => e.clone() });
    // ---- VerifierCircuitData: restored verifier accepts the original's proof
    let restored_verifier = guarded(|| {
        let vd = data.verifier_data();
        let b = io(vd.to_bytes(&gs), "to_bytes")?;
        let back = io(VerifierCircuitData::<F, C, D>::from_bytes(b.clone(), &gs), "from_bytes")?;
        if back != vd { return Err("decoded value differs".into()) }
        if io(back.to_bytes(&gs), "to_bytes")? != b { return Err("re-encoding differs".into()) }
        Ok(back)
    });
    out.case(name, "verifier-data-roundtrip", restored_verifier.is_ok(), &restored_verifier.as_ref().err().cloned().unwrap_or_default());
    if let Ok(rv) = &restored_verifier {
        let r = guarded(|| rv.verify(proof.clone()).map_err(|e| e.to_string()));
        out.case(name, "restored-verifier-accepts-original-proof", r.is_ok(), &r.err().unwrap_or_default());
    }
    // ---- CircuitData
    let bytes = match guarded(|| io(data.to_bytes(&gs, &gens), "CircuitData::to_bytes")) {
        Ok(b) => b,
        Err(e) => { out.case(name, "circuit-data-roundtrip", false, &e); return }
    };
    let restored = match guarded(|| io(CircuitData::<F, C, D>::from_bytes(&bytes, &gs, &gens), "CircuitData::from_bytes")) {
        Ok(d) => d,
        Err(e) => { out.case(name, "circuit-data-roundtrip", false, &e); return }
    };
    let r = guarded(|| {
        if restored != data { return Err("restored CircuitData != original (PartialEq)".into()) }
        if io(restored.to_bytes(&gs, &gens), "to_bytes")? != bytes { return Err("re-encoding differs".into()) }
        Ok(())
    });
    out.case(name, "circuit-data-roundtrip", r.is_ok(), &match &r { Ok(()) => format!("{} bytes, {} generators", bytes.len(), data.prover_only.generators.len()), Err(e) => e.clone() });
    // (2) interchangeability
    out.case(name, "restored-same-digest", restored.verifier_only.circuit_digest == data.verifier_only.circuit_digest
             && restored.verifier_only.constants_sigmas_cap == data.verifier_only.constants_sigmas_cap, "");
    let r = guarded(|| {
        // witness generation by the restored generators gives the same wire values outside random cells
        let w1 = plonky2::iop::generator::generate_partial_witness(make_pw(), &data.prover_only, &data.common).map_err(|e| e.to_string())?;
        let w2 = plonky2::iop::generator::generate_partial_witness(make_pw(), &restored.prover_only, &restored.common).map_err(|e| e.to_string())?;
        let (m1, m2) = (w1.full_witness(), w2.full_witness());
        let random: BTreeSet<usize> = random_rows(&data);
        let mut diff = 0;
        for row in 0..data.common.degree() {
            if random.contains(&row) { continue; }
            for col in 0..data.common.config.num_wires { if m1.get_wire(row, col) != m2.get_wire(row, col) { diff += 1 } }
        }
        if diff > 0 { Err(format!("{diff} wire values differ")) } else { Ok(random.len()) }
    });
    out.case(name, "restored-witness-agrees", r.is_ok(), &match &r { Ok(n) => format!("rows with random cells skipped: {n}"), Err(e) => e.clone() });
    let rproof = guarded(|| restored.prove(make_pw()).map_err(|e| e.to_string()));
    match &rproof {
        Err(e) => out.case(name, "restored-proves", false, e),
        Ok(rp) => {
            out.case(name, "restored-proves", true, "");
            out.case(name, "public-inputs-agree", rp.public_inputs == proof.public_inputs, "");
            let r = guarded(|| data.verify(rp.clone()).map_err(|e| e.to_string()));
            out.case(name, "original-verifier-accepts-restored-proof", r.is_ok(), &r.err().unwrap_or_default());
            let r = guarded(|| restored.verify(proof.clone()).map_err(|e| e.to_string()));
            out.case(name, "restored-verifier-accepts-original-proof-full", r.is_ok(), &r.err().unwrap_or_default());
            if let Ok(rv) = &restored_verifier {
                let r = guarded(|| rv.verify(rp.clone()).map_err(|e| e.to_string()));
                out.case(name, "restored-verifier-data-accepts-restored-proof", r.is_ok(), &r.err().unwrap_or_default());
            }
        }
    }
    // ---- ProverCircuitData (no PartialEq): byte-level round trip, then it must prove
    let r = guarded(|| {
        let pd: ProverCircuitData<F, C, D> = restored.prover_data();
        let b = io(pd.to_bytes(&gs, &gens), "ProverCircuitData::to_bytes")?;
        let back = io(ProverCircuitData::<F, C, D>::from_bytes(&b, &gs, &gens), "ProverCircuitData::from_bytes")?;
        if back.common != pd.common || back.prover_only != pd.prover_only { return Err("decoded value differs".into()) }
        if io(back.to_bytes(&gs, &gens), "to_bytes")? != b { return Err("re-encoding differs".into()) }
        let p = back.prove(make_pw()).map_err(|e| e.to_string())?;
        if p.public_inputs != proof.public_inputs { return Err("public inputs differ".into()) }
        data.verify(p).map_err(|e| format!("original verifier rejects: {e}"))?;
        Ok(b.len())
    });
    out.case(name, "prover-data-roundtrip-and-proves", r.is_ok(), &match &r { Ok(n) => format!("{n} bytes"), Err(e) => e.clone() });
}

/// rows holding a cell written by RandomValueGenerator (directly or through CopyGenerator)
fn random_rows(data: &Data) -> BTreeSet<usize> {
    let mut rows = BTreeSet::new();
    for g in &data.prover_only.generators {
        let id = g.0.id();
        if id == "RandomValueGenerator" || id == "CopyGenerator" {
            let mut b: Vec<u8> = vec![];
            if g.0.serialize(&mut b, &data.common).is_err() { continue; }
            let mut at = 0;
            while at < b.len() {
                let u = |i: usize| u64::from_le_bytes(b[i..i + 8].try_into().unwrap()) as usize;
                if b[at] == 1 { rows.insert(u(at + 1)); at += 17 } else { at += 9 }
            }
        }
    }
    rows
}

fn dsl_circuit(p: &Program, cfg: &CircuitConfig) -> Result<Data, String> {
    guarded(|| {
        let mut b = CircuitBuilder::<F, D>::new(cfg.clone());
        let _ = dsl::build(p, &mut b);
        Ok(b.build::<C>())
    })
}
/// inputs of a DSL circuit: the Input ops are the first virtual targets, in order of creation
fn dsl_pw(p: &Program, cfg: &CircuitConfig) -> PartialWitness<F> {
    let mut b = CircuitBuilder::<F, D>::new(cfg.clone());
    let ins = dsl::build(p, &mut b);
    dsl::witness(p, &ins)
}

/// A circuit containing every gate type of the default gate serializer: recursion (conditional,
/// with a generated dummy proof) brings CosetInterpolation / Reducing / ReducingExtension /
/// Exponentiation / PoseidonMds / MulExtension / RandomAccess; a DSL program brings lookups, BaseSum,
/// Poseidon; the rest is called directly.
fn allgates(r: &mut Rng, out: &mut Out, with_dummy: bool) -> Result<(Data, Box<dyn Fn() -> PartialWitness<F>>), String> {
    let cfg = CircuitConfig::standard_recursion_config();
    // the inner circuit needs FRI reduction steps (degree 2^10) for the verifier circuit to contain
    // CosetInterpolationGate
    let inner_prog = gen_program(r, 20, 15);
    let inner = guarded(|| {
        let mut b = CircuitBuilder::<F, D>::new(cfg.clone());
        let ins = dsl::build(&inner_prog, &mut b);
        for _ in 0..900 { b.add_gate(NoopGate, vec![]); }
        let data = b.build::<C>();
        let proof = data.prove(dsl::witness(&inner_prog, &ins)).map_err(|e| e.to_string())?;
        Ok(Built { data, proof, expected_pis: vec![] })
    })?;
    let prog = gen_program(r, 40, 31);
    let inner_common = inner.data.common.clone();
    let inner_vo = inner.data.verifier_only.clone();
    let inner_proof = inner.proof.clone();
    let build = move |b: &mut CircuitBuilder<F, D>| -> PartialWitness<F> {
        let mut pw = PartialWitness::new();
        let ins = dsl::build(&prog, b);
        for (t, v) in ins.iter().zip(prog.inputs.iter()) { pw.set_target(*t, F::from_noncanonical_u64(*v % P)).unwrap(); }
        let pt = b.add_virtual_proof_with_pis(&inner_common);
        let vd = b.add_virtual_verifier_data(inner_common.config.fri_config.cap_height);
        pw.set_proof_with_pis_target(&pt, &inner_proof).unwrap();
        pw.set_verifier_data_target(&vd, &inner_vo).unwrap();
        if with_dummy {
            let cond = b.add_virtual_bool_target_safe();
            pw.set_bool_target(cond, true).unwrap();
            b.conditionally_verify_proof_or_dummy::<C>(cond, &pt, &vd, &inner_common).unwrap();
        } else {
            b.verify_proof::<C>(&pt, &vd, &inner_common);
        }
        // direct gadget calls
        let x = b.add_virtual_target();
        pw.set_target(x, F::from_canonical_u64(0x1234_5678_9abc)).unwrap();
        let ex = b.add_virtual_extension_target();
        pw.set_extension_target(ex, QuadraticExtension([F::from_canonical_u64(7), F::from_canonical_u64(11)])).unwrap();
        let ey = b.add_virtual_extension_target();
        pw.set_extension_target(ey, QuadraticExtension([F::from_canonical_u64(3), F::NEG_ONE])).unwrap();
        let m = b.mul_extension(ex, ey);
        let q = b.div_extension(m, ey);
        b.connect_extension(q, ex);
        let a = b.arithmetic_extension(F::TWO, F::from_canonical_u64(5), ex, ey, m);
        let (lo, hi) = b.split_low_high(x, 20, 48);
        let bits = b.split_le(lo, 20);
        let e20 = b.exp_from_bits_const_base(F::from_canonical_u64(3), bits.iter());
        let xbits = b.split_le(x, 48);
        // more bits than arithmetic operations per gate: ExponentiationGate
        let e30 = b.exp_from_bits_const_base(F::from_canonical_u64(3), xbits[..30].iter());
        let e = b.mul(e20, e30);
        let xsum = b.le_sum(xbits.iter());       // more than 21 bits: BaseSumGate with BaseSumGenerator
        b.connect(xsum, x);
        let copy = b.add_virtual_target();
        b.generate_copy(e, copy);
        let terms: Vec<_> = (0..70).map(|i| b.mul_const(F::from_canonical_u64(i + 1), hi)).collect();
        let mut rf = ReducingFactorTarget::new(a);
        let red = rf.reduce_base(&terms, b);
        let eterms: Vec<_> = (0..40).map(|_| b.add_extension(red, ex)).collect();
        let mut rf2 = ReducingFactorTarget::new(ey);
        let red2 = rf2.reduce(&eterms, b);
        let parts = red2.to_target_array();
        b.register_public_input(parts[0]);
        b.register_public_input(copy);
        b.add_gate(NoopGate, vec![]);
        let _ = BoolTarget::new_unsafe(x);
        pw
    };
    let build = std::sync::Arc::new(build);
    let b2 = build.clone();
    let data = guarded(move || {
        let mut b = CircuitBuilder::<F, D>::new(CircuitConfig::standard_recursion_config());
        let _ = b2(&mut b);
        Ok(b.build::<C>())
    })?;
    let kinds: BTreeSet<String> = data.common.gates.iter().map(|g| gate_kind(&g.0.id())).collect();
    let missing: Vec<&str> = REGISTERED_GATES.iter().filter(|g| !kinds.contains(**g)).cloned().collect();
    out.case(if with_dummy { "allgates-dummy" } else { "allgates" }, "every-registered-gate-present", missing.is_empty(),
             &format!("{} gate instances of {} kinds; missing: {:?}", data.common.gates.len(), kinds.len(), missing));
    let mk: Box<dyn Fn() -> PartialWitness<F>> = Box::new(move || {
        let mut b = CircuitBuilder::<F, D>::new(CircuitConfig::standard_recursion_config());
        build(&mut b)
    });
    Ok((data, mk))
}

// ------------------------------------------------------------------------------ enc / dec lines
fn raw(x: &F) -> u64 { x.0 }
fn d_hash(o: &mut Vec<u64>, h: &HashOut<F>) { for e in h.elements { o.push(raw(&e)) } }
fn d_hashes(o: &mut Vec<u64>, hs: &[HashOut<F>]) { o.push(hs.len() as u64); for h in hs { d_hash(o, h) } }
fn d_exts(o: &mut Vec<u64>, xs: &[FE]) { o.push(xs.len() as u64); for x in xs { o.push(raw(&x.0[0])); o.push(raw(&x.0[1])) } }
fn d_fes(o: &mut Vec<u64>, xs: &[F]) { o.push(xs.len() as u64); for x in xs { o.push(raw(x)) } }
fn d_strategy(o: &mut Vec<u64>, s: &FriReductionStrategy) {
    match s {
        FriReductionStrategy::Fixed(v) => { o.push(0); o.push(v.len() as u64); o.extend(v.iter().map(|x| *x as u64)) }
        FriReductionStrategy::ConstantArityBits(a, b) => o.extend([1, *a as u64, *b as u64]),
        FriReductionStrategy::MinSize(None) => o.extend([2, 0]),
        FriReductionStrategy::MinSize(Some(m)) => o.extend([2, 1, *m as u64]),
    }
}
fn d_fri_config(o: &mut Vec<u64>, c: &FriConfig) {
    o.extend([c.rate_bits as u64, c.cap_height as u64, c.num_query_rounds as u64, c.proof_of_work_bits as u64]);
    d_strategy(o, &c.reduction_strategy);
}
fn d_fri_params(o: &mut Vec<u64>, p: &FriParams) {
    d_fri_config(o, &p.config);
    o.push(p.reduction_arity_bits.len() as u64);
    o.extend(p.reduction_arity_bits.iter().map(|x| *x as u64));
    o.extend([p.degree_bits as u64, p.hiding as u64]);
}
fn d_circuit_config(o: &mut Vec<u64>, c: &CircuitConfig) {
    o.extend([c.num_wires as u64, c.num_routed_wires as u64, c.num_constants as u64, c.security_bits as u64,
              c.num_challenges as u64, c.max_quotient_degree_factor as u64, c.use_base_arithmetic_gate as u64, c.zero_knowledge as u64]);
    d_fri_config(o, &c.fri_config);
}
fn d_openings(o: &mut Vec<u64>, s: &OpeningSet<F, D>) {
    d_exts(o, &s.constants); d_exts(o, &s.plonk_sigmas); d_exts(o, &s.wires); d_exts(o, &s.plonk_zs);
    d_exts(o, &s.plonk_zs_next); d_exts(o, &s.partial_products); d_exts(o, &s.quotient_polys);
    d_exts(o, &s.lookup_zs); d_exts(o, &s.lookup_zs_next);
}
fn d_fri_proof(o: &mut Vec<u64>, p: &FriProof<F, H, D>) {
    o.push(p.commit_phase_merkle_caps.len() as u64);
    for c in &p.commit_phase_merkle_caps { d_hashes(o, &c.0) }
    o.push(p.query_round_proofs.len() as u64);
    for q in &p.query_round_proofs {
        o.push(q.initial_trees_proof.evals_proofs.len() as u64);
        for (ev, mp) in &q.initial_trees_proof.evals_proofs { d_fes(o, ev); d_hashes(o, &mp.siblings) }
        o.push(q.steps.len() as u64);
        for s in &q.steps { d_exts(o, &s.evals); d_hashes(o, &s.merkle_proof.siblings) }
    }
    d_exts(o, &p.final_poly.coeffs);
    o.push(raw(&p.pow_witness));
}
fn d_pwpi(o: &mut Vec<u64>, p: &Pwpi) {
    d_hashes(o, &p.proof.wires_cap.0); d_hashes(o, &p.proof.plonk_zs_partial_products_cap.0);
    d_hashes(o, &p.proof.quotient_polys_cap.0);
    d_openings(o, &p.proof.openings);
    d_fri_proof(o, &p.proof.opening_proof);
    d_fes(o, &p.public_inputs);
}
fn d_shape(o: &mut Vec<u64>, cd: &CommonCircuitData<F, D>) {
    let c = &cd.config;
    o.extend([c.fri_config.cap_height as u64, cd.num_constants as u64, c.num_routed_wires as u64, c.num_wires as u64,
              c.num_challenges as u64, cd.num_lookup_polys as u64, cd.num_partial_products as u64,
              cd.quotient_degree_factor as u64, if cd.fri_params.hiding { 4 } else { 0 }]);
    o.push(cd.fri_params.reduction_arity_bits.len() as u64);
    o.extend(cd.fri_params.reduction_arity_bits.iter().map(|x| *x as u64));
    o.extend([c.fri_config.num_query_rounds as u64, cd.fri_params.final_poly_len() as u64]);
}
fn b64(b: &[u8]) -> Vec<u64> { b.iter().map(|x| *x as u64).collect() }

fn enc(out: &mut Out, op: &str, args: &[u64], f: impl FnOnce(&mut Vec<u8>) -> IoResult<()>) -> Option<Vec<u8>> {
    let r = catch_unwind(AssertUnwindSafe(|| { let mut v: Vec<u8> = vec![]; f(&mut v).map(|_| v) }));
    match r {
        Ok(Ok(v)) => { out.line(op, args, Some(b64(&v)), ""); Some(v) }
        Ok(Err(_)) => { out.line(op, args, None, "err"); None }
        Err(_) => { out.line(op, args, None, &crate::rng::panic_site()); None }
    }
}
/// decode `bytes` with `f`, which returns the flat dump of the decoded value
fn dec(out: &mut Out, op: &str, prefix: &[u64], bytes: &[u8], note: &str, f: impl FnOnce(&mut Buffer) -> IoResult<Vec<u64>>) {
    let mut args = prefix.to_vec();
    args.extend(b64(bytes));
    let r = catch_unwind(AssertUnwindSafe(|| { let mut b = Buffer::new(bytes); f(&mut b).map(|mut v| { v.push(b.remaining() as u64); v }) }));
    match r {
        Ok(Ok(v)) => out.line(op, &args, Some(v), note),
        Ok(Err(_)) => out.line(op, &args, None, &format!("err {note}")),
        Err(_) => out.line(op, &args, None, &format!("{} {note}", crate::rng::panic_site())),
    }
}
/// byte-level variations of a valid encoding: as is, extended, truncated, single bytes replaced
fn variants(r: &mut Rng, valid: &[u8], n: usize) -> Vec<(Vec<u8>, String)> {
    let mut v = vec![(valid.to_vec(), "valid".to_string())];
    let mut ext = valid.to_vec(); ext.extend([1, 2, 3, 4, 5]);
    v.push((ext, "valid+5".into()));
    if !valid.is_empty() {
        v.push((valid[..valid.len() - 1].to_vec(), "cut-1".into()));
        v.push((vec![], "empty".into()));
        for _ in 0..n {
            let k = r.below(valid.len() as u64) as usize;
            v.push((valid[..k].to_vec(), format!("cut@{k}")));
            let mut m = valid.to_vec();
            let at = r.below(valid.len() as u64) as usize;
            m[at] = match r.below(4) { 0 => 0xff, 1 => m[at].wrapping_add(1), 2 => 0, _ => r.next_u64() as u8 };
            v.push((m, format!("byte@{at}")));
        }
    }
    v
}
/// `read_usize_vec` calls `Vec::with_capacity(len)` with the length found in the bytes: a length
/// between a few thousand and 2^61 makes the process ABORT (allocation failure is not a panic), so
/// such inputs cannot be cases of an in-process harness. Returns the offset after the vector, or
/// None when the bytes at `at` hold such a length.
fn usize_vec_safe(b: &[u8], at: usize) -> Option<usize> {
    if b.len() < at + 8 { return Some(usize::MAX) }
    let l = u64::from_le_bytes(b[at..at + 8].try_into().unwrap());
    if l > 4096 && l < (1 << 61) { return None }
    if l >= (1 << 61) { return Some(usize::MAX) }
    Some(at + 8 + 8 * l as usize)
}
fn strategy_safe(b: &[u8], at: usize) -> Option<usize> {
    if at == usize::MAX || b.len() <= at { return Some(usize::MAX) }
    match b[at] {
        0 => usize_vec_safe(b, at + 1),
        1 => Some(at + 17),
        2 => if b.len() > at + 1 && b[at + 1] == 1 { Some(at + 10) } else { Some(at + 2) },
        _ => Some(usize::MAX),
    }
}
fn fri_config_safe(b: &[u8], at: usize) -> Option<usize> { strategy_safe(b, at + 28) }
fn fri_params_safe(b: &[u8]) -> bool {
    match fri_config_safe(b, 0) { None => false, Some(usize::MAX) => true, Some(n) => usize_vec_safe(b, n).is_some() }
}

fn mk_hash(r: &mut Rng) -> HashOut<F> {
    // raw representations, some of them non-canonical
    HashOut { elements: [fe(r), fe(r), fe(r), fe(r)] }
}
fn fe(r: &mut Rng) -> F {
    match r.below(8) { 0 => F(P - 1), 1 => F(0), 2 => F(P + r.below(1000)), 3 => F(u64::MAX - r.below(3)), 4 => F(r.below(5)), _ => F(r.next_u64()) }
}
fn fext(r: &mut Rng) -> FE { QuadraticExtension([fe(r), fe(r)]) }

fn r_hash(b: &mut Buffer) -> IoResult<HashOut<F>> { b.read_hash::<F, H>() }

fn codec_lines(seed: u64, tier: &str, out: &mut Out, proofs: &[(Pwpi, CommonCircuitData<F, D>, VerifierOnlyCircuitData<C, D>)]) {
    let mut r = Rng::new(seed ^ 0xC17C);
    let k = if tier == "thorough" { 40 } else { 8 };
    // ---- integers, bool
    let xs: Vec<u64> = [0u64, 1, 2, 127, 128, 254, 255].into_iter().chain((0..k).map(|_| r.below(256))).collect();
    for x in xs {
        if let Some(v) = enc(out, "enc_u8", &[x], |w| w.write_u8(x as u8)) {
            for (b, n) in variants(&mut r, &v, 1) { dec(out, "dec_u8", &[], &b, &n, |bf| bf.read_u8().map(|y| vec![y as u64])) }
            for (b, n) in variants(&mut r, &v, 0) { dec(out, "dec_bool", &[], &b, &n, |bf| bf.read_bool().map(|y| vec![y as u64])) }
        }
    }
    let xs: Vec<u64> = [0u64, 1, 255, 256, 65535, 65536, (1 << 31) - 1, 1 << 31, u32::MAX as u64, 0x1234_5678].into_iter().chain((0..k).map(|_| r.next_u64() >> 32)).collect();
    for x in xs {
        if let Some(v) = enc(out, "enc_u32", &[x], |w| w.write_u32(x as u32)) {
            for (b, n) in variants(&mut r, &v, 2) { dec(out, "dec_u32", &[], &b, &n, |bf| bf.read_u32().map(|y| vec![y as u64])) }
        }
    }
    let xs: Vec<u64> = [0u64, 1, 255, 256, u32::MAX as u64, 1 << 32, (1 << 63) - 1, 1 << 63, u64::MAX, P, P - 1].into_iter().chain((0..k).map(|_| { let s = r.below(64); r.next_u64() >> s })).collect();
    for x in xs {
        if let Some(v) = enc(out, "enc_usize", &[x], |w| w.write_usize(x as usize)) {
            for (b, n) in variants(&mut r, &v, 2) { dec(out, "dec_usize", &[], &b, &n, |bf| bf.read_usize().map(|y| vec![y as u64])) }
        }
    }
    for x in [0u64, 1] { enc(out, "enc_bool", &[x], |w| w.write_bool(x == 1)); }
    // ---- field, extension, hash
    let mut fvals: Vec<u64> = crate::rng::boundary_u64();
    for _ in 0..k { fvals.push(r.next_u64()); }
    for x in fvals {
        if let Some(v) = enc(out, "enc_field", &[x], |w| w.write_field(F(x))) {
            for (b, n) in variants(&mut r, &v, 1) { dec(out, "dec_field", &[], &b, &n, |bf| bf.read_field::<F>().map(|y| vec![raw(&y)])) }
        }
        // the raw little-endian bytes of x (possibly non-canonical): accepted as they are
        dec(out, "dec_field", &[], &x.to_le_bytes(), "raw", |bf| bf.read_field::<F>().map(|y| vec![raw(&y)]));
    }
    for _ in 0..k {
        let e = fext(&mut r);
        if let Some(v) = enc(out, "enc_ext", &[raw(&e.0[0]), raw(&e.0[1])], |w| w.write_field_ext::<F, D>(e)) {
            for (b, n) in variants(&mut r, &v, 2) { dec(out, "dec_ext", &[], &b, &n, |bf| bf.read_field_ext::<F, D>().map(|y| vec![raw(&y.0[0]), raw(&y.0[1])])) }
        }
        let h = mk_hash(&mut r);
        let mut a = vec![]; d_hash(&mut a, &h);
        if let Some(v) = enc(out, "enc_hash", &a, |w| w.write_hash::<F, H>(h)) {
            for (b, n) in variants(&mut r, &v, 2) { dec(out, "dec_hash", &[], &b, &n, |bf| r_hash(bf).map(|y| { let mut o = vec![]; d_hash(&mut o, &y); o })) }
        }
    }
    // ---- caps (length from the configuration) and Merkle paths (u8 length)
    for hgt in 0..=4usize {
        for len in [1usize << hgt, (1 << hgt) + 1, (1usize << hgt).saturating_sub(1)] {
            let cap: MerkleCap<F, H> = MerkleCap((0..len).map(|_| mk_hash(&mut r)).collect());
            let mut a = vec![]; d_hashes(&mut a, &cap.0);
            if let Some(v) = enc(out, "enc_cap", &a, |w| w.write_merkle_cap(&cap)) {
                for (b, n) in variants(&mut r, &v, 1) {
                    dec(out, "dec_cap", &[hgt as u64], &b, &n, |bf| bf.read_merkle_cap::<F, H>(hgt).map(|y| { let mut o = vec![]; d_hashes(&mut o, &y.0); o }))
                }
            }
        }
    }
    for len in [0usize, 1, 2, 7, 32, 254, 255, 256, 257, 300] {
        let p: MerkleProof<F, H> = MerkleProof { siblings: (0..len).map(|_| mk_hash(&mut r)).collect() };
        let mut a = vec![]; d_hashes(&mut a, &p.siblings);
        if let Some(v) = enc(out, "enc_mproof", &a, |w| w.write_merkle_proof(&p)) {
            for (b, n) in variants(&mut r, &v, 2) {
                dec(out, "dec_mproof", &[], &b, &n, |bf| bf.read_merkle_proof::<F, H>().map(|y| { let mut o = vec![]; d_hashes(&mut o, &y.siblings); o }))
            }
        }
    }
    // ---- Vec<usize>; absurd length prefixes (but none that would make with_capacity try a huge allocation)
    for len in [0usize, 1, 2, 5, 33] {
        let v: Vec<usize> = (0..len).map(|_| (r.next_u64() >> r.below(64)) as usize).collect();
        let mut a = vec![len as u64]; a.extend(v.iter().map(|x| *x as u64));
        if let Some(bytes) = enc(out, "enc_usizevec", &a, |w| w.write_usize_vec(&v)) {
            for (b, n) in variants(&mut r, &bytes, 2) {
                if usize_vec_safe(&b, 0).is_none() { continue; }
                dec(out, "dec_usizevec", &[], &b, &n, |bf| bf.read_usize_vec().map(|y| { let mut o = vec![y.len() as u64]; o.extend(y.iter().map(|x| *x as u64)); o }))
            }
            let mut longer = bytes.clone();
            longer[..8].copy_from_slice(&((len + 1) as u64).to_le_bytes());
            dec(out, "dec_usizevec", &[], &longer, "len+1", |bf| bf.read_usize_vec().map(|y| { let mut o = vec![y.len() as u64]; o.extend(y.iter().map(|x| *x as u64)); o }));
        }
    }
    // ---- FRI configuration records
    let strategies = vec![
        FriReductionStrategy::Fixed(vec![]), FriReductionStrategy::Fixed(vec![1, 2, 3]), FriReductionStrategy::Fixed(vec![usize::MAX, 0]),
        FriReductionStrategy::ConstantArityBits(4, 5), FriReductionStrategy::ConstantArityBits(0, usize::MAX),
        FriReductionStrategy::MinSize(None), FriReductionStrategy::MinSize(Some(0)), FriReductionStrategy::MinSize(Some(3)),
        FriReductionStrategy::MinSize(Some(usize::MAX - 1)),
    ];
    let rd_strategy = |bf: &mut Buffer| bf.read_fri_reduction_strategy().map(|y| { let mut o = vec![]; d_strategy(&mut o, &y); o });
    for s in &strategies {
        let mut a = vec![]; d_strategy(&mut a, s);
        if let Some(v) = enc(out, "enc_strategy", &a, |w| w.write_fri_reduction_strategy(s)) {
            for (b, n) in variants(&mut r, &v, 3) {
                if strategy_safe(&b, 0).is_none() { continue; }
                dec(out, "dec_strategy", &[], &b, &n, rd_strategy)
            }
        }
    }
    for tag in [3u8, 4, 255] { dec(out, "dec_strategy", &[], &[tag, 0, 0, 0, 0, 0, 0, 0, 0], "bad variant", rd_strategy) }
    for some in [2u8, 255] { dec(out, "dec_strategy", &[], &[2, some, 1, 0, 0, 0, 0, 0, 0, 0], "bad option tag", rd_strategy) }
    let mut cfgs: Vec<CircuitConfig> = configs().into_iter().map(|(_, c)| c).collect();
    cfgs.push(wide_config()); cfgs.push(narrow_config());
    cfgs.push(CircuitConfig { fri_config: fri_config(0, 0, u32::MAX, FriReductionStrategy::Fixed(vec![5, 4, 3]), 0), ..CircuitConfig::standard_recursion_config() });
    for (i, c) in cfgs.iter().enumerate() {
        let fc = &c.fri_config;
        let mut a = vec![]; d_fri_config(&mut a, fc);
        if let Some(v) = enc(out, "enc_friconfig", &a, |w| w.write_fri_config(fc)) {
            for (b, n) in variants(&mut r, &v, 2) { if fri_config_safe(&b, 0).is_none() { continue; } dec(out, "dec_friconfig", &[], &b, &n, |bf| bf.read_fri_config().map(|y| { let mut o = vec![]; d_fri_config(&mut o, &y); o })) }
        }
        let fp = FriParams { config: fc.clone(), hiding: i % 2 == 0, degree_bits: 3 + i, reduction_arity_bits: (0..i % 4).map(|j| 1 + j).collect() };
        let mut a = vec![]; d_fri_params(&mut a, &fp);
        if let Some(v) = enc(out, "enc_friparams", &a, |w| w.write_fri_params(&fp)) {
            for (b, n) in variants(&mut r, &v, 2) { if !fri_params_safe(&b) { continue; } dec(out, "dec_friparams", &[], &b, &n, |bf| bf.read_fri_params().map(|y| { let mut o = vec![]; d_fri_params(&mut o, &y); o })) }
        }
        let mut a = vec![]; d_circuit_config(&mut a, c);
        if let Some(v) = enc(out, "enc_circuitconfig", &a, |w| w.write_circuit_config(c)) {
            for (b, n) in variants(&mut r, &v, 3) { if fri_config_safe(&b, 50).is_none() { continue; } dec(out, "dec_circuitconfig", &[], &b, &n, |bf| bf.read_circuit_config().map(|y| { let mut o = vec![]; d_circuit_config(&mut o, &y); o })) }
        }
    }
    // ---- opening sets, verifier-only data and whole proofs of the corpus
    for (pi, (proof, common, vo)) in proofs.iter().enumerate() {
        let mut shape = vec![]; d_shape(&mut shape, common);
        let mut a = vec![]; d_openings(&mut a, &proof.proof.openings);
        if let Some(v) = enc(out, "enc_openings", &a, |w| w.write_opening_set(&proof.proof.openings)) {
            for (b, n) in variants(&mut r, &v, 2) {
                dec(out, "dec_openings", &shape, &b, &n, |bf| bf.read_opening_set::<F, C, D>(common).map(|y| { let mut o = vec![]; d_openings(&mut o, &y); o }))
            }
        }
        let mut a = vec![]; d_hashes(&mut a, &vo.constants_sigmas_cap.0); d_hash(&mut a, &vo.circuit_digest);
        if let Some(v) = enc(out, "enc_verifieronly", &a, |w| w.write_verifier_only_circuit_data(vo)) {
            for (b, n) in variants(&mut r, &v, 3) {
                // a height byte >= 64 overflows the shift in debug builds: release semantics modelled
                dec(out, "dec_verifieronly", &[], &b, &n, |bf| bf.read_verifier_only_circuit_data::<F, C, D>().map(|y| {
                    let mut o = vec![]; d_hashes(&mut o, &y.constants_sigmas_cap.0); d_hash(&mut o, &y.circuit_digest); o }))
            }
        }
        let mut a = vec![]; d_pwpi(&mut a, proof);
        if let Some(v) = enc(out, "enc_proof", &a, |w| w.write_proof_with_public_inputs(proof)) {
            let nvar = if tier == "thorough" { 6 } else if pi < 4 { 3 } else { 1 };
            for (b, n) in variants(&mut r, &v, nvar) {
                dec(out, "dec_proof", &shape, &b, &n, |bf| bf.read_proof_with_public_inputs::<F, C, D>(common).map(|y| { let mut o = vec![]; d_pwpi(&mut o, &y); o }))
            }
        }
    }
    // a cap whose length is not a power of two: VerifierOnlyCircuitData::to_bytes panics (log2_strict)
    if let Some((_, _, vo)) = proofs.first() {
        let mut bad = vo.clone();
        bad.constants_sigmas_cap.0.push(mk_hash(&mut r));
        let mut a = vec![]; d_hashes(&mut a, &bad.constants_sigmas_cap.0); d_hash(&mut a, &bad.circuit_digest);
        enc(out, "enc_verifieronly", &a, |w| w.write_verifier_only_circuit_data(&bad));
    }
}

/// Not part of the check (the process is expected to die): `VERIF_C17_ABORT_PROBE=1 verif_harness c17 ..`
/// decodes FriParams bytes whose `reduction_arity_bits` length prefix is 2^48. `read_usize_vec` calls
/// `Vec::with_capacity(len)` with the length from the bytes; the allocation failure ABORTS the
/// process (no Err, no unwinding). The same pattern is in read_common_circuit_data (gates, luts),
/// read_prover_only_circuit_data, read_lut, read_merkle_tree, read_polynomial_batch.
fn abort_probe(w: &mut dyn Write) {
    let fp = FriParams { config: fri_config(3, 4, 16, FriReductionStrategy::ConstantArityBits(4, 5), 28), hiding: false,
                         degree_bits: 12, reduction_arity_bits: vec![4, 4] };
    let mut bytes: Vec<u8> = vec![];
    bytes.write_fri_params(&fp).unwrap();
    // layout: 3 usize + u32 + strategy (tag 1 + 2 usize) = 45 bytes, then the vector length
    bytes[45..53].copy_from_slice(&(1u64 << 48).to_le_bytes());
    writeln!(w, "abort-probe: decoding {} bytes with a vector length prefix of 2^48", bytes.len()).unwrap();
    w.flush().unwrap();
    let r = catch_unwind(AssertUnwindSafe(|| Buffer::new(&bytes).read_fri_params().is_ok()));
    writeln!(w, "abort-probe: survived, result {:?}", r.map_err(|_| "panic")).unwrap();
}

pub fn run(seed: u64, tier: &str, w: &mut dyn Write) -> usize {
    if std::env::var("VERIF_C17_ABORT_PROBE").is_ok() { abort_probe(w); return 0; }
    let mut r = Rng::new(seed ^ 0xC17);
    let mut out = Out { w, n: 0, gens: BTreeSet::new(), gates: BTreeSet::new() };
    let thorough = tier == "thorough";
    let mut proofs = vec![];
    // ---- corpus: every configuration (incl. zero knowledge), all gadget families incl. lookups
    let mut corpus: Vec<(String, Program, CircuitConfig)> = vec![];
    for (ci, (name, cfg)) in configs().into_iter().enumerate() {
        for rep in 0..(if thorough { 3 } else { 1 }) {
            let kinds = [63u32, 15, 49, 39][(ci + rep) % 4] | if rep == 0 { 16 } else { 0 };
            let size = [24usize, 60, 8][rep] + r.below(8) as usize;
            let size = if name == "standard" { size.min(30) } else { size };
            corpus.push((format!("{name}.{rep}"), gen_program(&mut r, size, kinds), cfg.clone()));
        }
    }
    corpus.push(("wide.0".into(), gen_program(&mut r, 20, 63), wide_config()));
    corpus.push(("narrow.0".into(), gen_program(&mut r, 20, 63), narrow_config()));
    let only = std::env::var("VERIF_ONLY").ok();
    for (name, p, cfg) in &corpus {
        if only.as_ref().map_or(false, |o| !name.starts_with(o.as_str())) { continue; }
        match dsl_circuit(p, cfg) {
            Err(e) => out.case(name, "build", false, &e),
            Ok(data) => {
                if let Ok(pr) = guarded(|| data.prove(dsl_pw(p, cfg)).map_err(|e| e.to_string())) {
                    if data.common.degree_bits() <= 9 || proofs.len() < 3 {
                        proofs.push((pr, data.common.clone(), data.verifier_only.clone()));
                    }
                }
                let (pp, cc) = (p.clone(), cfg.clone());
                check_circuit(name, data, &move || dsl_pw(&pp, &cc), &mut out);
            }
        }
    }
    // ---- (3) every registered gate, as many registered generators as the builder API reaches
    let variants: &[bool] = if thorough { &[false, true] } else { &[true] };
    for with_dummy in variants {
        let name = if *with_dummy { "allgates-dummy" } else { "allgates" };
        if only.as_ref().map_or(false, |o| !name.starts_with(o.as_str())) { continue; }
        match allgates(&mut r, &mut out, *with_dummy) {
            Err(e) => out.case(name, "build", false, &e),
            Ok((data, mk)) => check_circuit(name, data, &*mk, &mut out),
        }
    }
    let reached: Vec<&str> = REGISTERED_GENERATORS.iter().filter(|g| out.gens.contains(**g)).cloned().collect();
    let not_reached: Vec<&str> = REGISTERED_GENERATORS.iter().filter(|g| !out.gens.contains(**g)).cloned().collect();
    let unregistered: Vec<String> = out.gens.iter().filter(|g| !REGISTERED_GENERATORS.contains(&g.as_str())).cloned().collect();
    // NonzeroTestGenerator and SplitGenerator are never instantiated by any builder method of the crate
    let expected_unreachable = ["NonzeroTestGenerator", "SplitGenerator"];
    let ok = not_reached.iter().all(|g| expected_unreachable.contains(g)) && unregistered.is_empty();
    out.case("registry", "generators-reached", ok, &format!("reached {}/{}; not reached: {:?}; used but unregistered: {:?}",
             reached.len(), REGISTERED_GENERATORS.len(), not_reached, unregistered));
    let gates_missing: Vec<&str> = REGISTERED_GATES.iter().filter(|g| !out.gates.contains(**g)).cloned().collect();
    out.case("registry", "gates-reached", gates_missing.is_empty(), &format!("missing: {:?}", gates_missing));
    // ---- enc / dec correspondence lines
    if only.is_none() || only.as_deref() == Some("codec") { codec_lines(seed, tier, &mut out, &proofs); }
    out.n
}
