//! C02: no accepted proof exists for an assignment that violates the circuit.
//!
//! For DSL programs under several configurations: take the honest witness, corrupt it (single
//! cell of the wire matrix, a whole copy class, a preset wire that conflicts with its generator,
//! a public input, a looked-up pair, a multiplicity), decide with the REAL evaluators whether
//! the corrupted assignment still satisfies the circuit (gate constraints of the touched rows,
//! all copy constraints read off the committed sigma polynomials, the lookup relation), and if
//! it does not, run the prover with each adversarial strategy of `plonk::verif_knobs`.
//! The outcome must be an error / panic of the prover, or a proof that `data.verify` rejects.
//!
//! Lines
//!   c02 <prog> <config> <corruption class> <strategy> = <1|0> # detail     (1 = no accepted proof)
//!   c02honest <prog> <config> = <1|0> # ..     all knobs default, no corruption: satisfied + verifies
//!   c02knob <prog> <config> <strategy> = <1|0> # ..  strategy on the HONEST witness (1 = as expected)
//!   c02skip <prog> <config> = <n> # ..          corruptions that leave the circuit satisfied
//!   cpp <max_degree n nums.. dens.. m partials.. z_x z_gx> = <terms|panic>   (Model/C02Run.v replays)
//!   plonkverify <common, verifier-only, proof dump> = <1|0>   a few adversarial proofs, replayed by the Gallina verifier (Model/Plonk.v)
use std::collections::HashMap;
use std::io::Write;
use std::panic::{catch_unwind, AssertUnwindSafe};

use plonky2::field::extension::quadratic::QuadraticExtension;
use plonky2::field::extension::Extendable;
use plonky2::field::goldilocks_field::GoldilocksField as F;
use plonky2::field::types::{Field, PrimeField64};
use plonky2::fri::reduction_strategies::FriReductionStrategy;
use plonky2::gates::lookup::LookupGate;
use plonky2::gates::lookup_table::LookupTableGate;
use plonky2::hash::hash_types::HashOut;
use plonky2::iop::generator::generate_partial_witness;
use plonky2::iop::target::Target;
use plonky2::iop::witness::{PartialWitness, PartitionWitness, Witness, WitnessWrite};
use plonky2::plonk::circuit_builder::CircuitBuilder;
use plonky2::plonk::circuit_data::CircuitConfig;
use plonky2::plonk::config::Hasher;
use plonky2::plonk::prover::{prove_with_partition_witness, set_lookup_wires};
use plonky2::plonk::vars::EvaluationVars;
use plonky2::plonk::verif_hooks::{check_partial_products, evaluate_gate_constraints, selectors_info_parts};
use plonky2::plonk::verif_knobs::{self, AdversaryKnobs};
use plonky2::util::timing::TimingTree;

use crate::corpus::*;
use crate::dsl::{self, Program, D};
use crate::rng::*;

pub type Matrix = Vec<Vec<F>>; // [row][column]

/// A built circuit together with what the verifier's key commits to, read back from the
/// committed constant / sigma polynomials (values on H by FFT).
pub struct Circ {
    pub data: Data,
    pub ins: Vec<Target>,
    pub n: usize,
    pub consts: Vec<Vec<F>>,               // [row][constant polynomial]
    pub row_gate: Vec<usize>,              // [row] -> index into common.gates
    pub sigma: Vec<Vec<(usize, usize)>>,   // [row][routed column] -> (row, column) the cell is tied to
    pub gate_names: Vec<String>,
}

pub fn gate_short_name(id: &str) -> String {
    id.chars().take_while(|c| c.is_ascii_alphanumeric() || *c == '_').collect()
}

pub fn build_circ(p: &Program, cfg: &CircuitConfig) -> Result<Circ, String> { build_circ_with(p, cfg, 0) }

/// The circuit of `p` followed by `extra_muls` chained multiplications by the first input: a way to
/// reach a gate count that is exactly a power of two, so that the builder adds NO padding NoopGate and
/// the sorted gate list starts with a real gate.
pub fn build_circ_unpadded(p: &Program, cfg: &CircuitConfig) -> Option<(Circ, usize)> {
    for extra in (0..1200).step_by(4) {
        if let Ok(c) = build_circ_with(p, cfg, extra) {
            if !c.gate_names.iter().any(|g| g == "NoopGate") && c.n <= 128 { return Some((c, extra)); }
        }
    }
    None
}

pub fn build_circ_with(p: &Program, cfg: &CircuitConfig, extra_muls: usize) -> Result<Circ, String> {
    let r = catch_unwind(AssertUnwindSafe(|| {
        let mut b = CircuitBuilder::<F, D>::new(cfg.clone());
        let ins = dsl::build(p, &mut b);
        if extra_muls > 0 {
            let mut acc = ins[0];
            for _ in 0..extra_muls { acc = b.mul(acc, ins[0]); }
        }
        (b.build::<C>(), ins)
    }));
    let (data, ins) = r.map_err(|_| format!("builder panic {}", panic_site()))?;
    let common = &data.common;
    let n = common.degree();
    let polys = &data.prover_only.constants_sigmas_commitment.polynomials;
    let vals: Vec<Vec<F>> = polys.iter().map(|c| c.clone().fft().values).collect();
    let nc = common.num_constants;
    let routed = common.config.num_routed_wires;
    let consts: Vec<Vec<F>> = (0..n).map(|r| (0..nc).map(|i| vals[i][r]).collect()).collect();
    // decode sigma: value k_is[c'] * g^r'  <->  cell (r', c')
    let sub = F::two_adic_subgroup(common.degree_bits());
    let mut pos: HashMap<u64, (usize, usize)> = HashMap::new();
    for (r, g) in sub.iter().enumerate() {
        for c in 0..routed {
            pos.insert((common.k_is[c] * *g).to_canonical_u64(), (r, c));
        }
    }
    let mut sigma = vec![vec![(0, 0); routed]; n];
    for r in 0..n {
        for c in 0..routed {
            sigma[r][c] = *pos.get(&vals[nc + c][r].to_canonical_u64()).ok_or("sigma value is not an identity value")?;
        }
    }
    let (sel_idx, _) = selectors_info_parts(&common.selectors_info);
    let mut row_gate = vec![usize::MAX; n];
    for r in 0..n {
        for gi in 0..common.gates.len() {
            if consts[r][sel_idx[gi]] == F::from_canonical_usize(gi) {
                row_gate[r] = gi;
            }
        }
        if row_gate[r] == usize::MAX { return Err(format!("row {r} has no gate")); }
    }
    let gate_names = common.gates.iter().map(|g| gate_short_name(&g.0.id())).collect();
    Ok(Circ { data, ins, n, consts, row_gate, sigma, gate_names })
}

/// `LookupGate::num_slots` / `LookupTableGate::num_slots` (crate-private there)
pub fn lu_slots(c: &CircuitConfig) -> usize { c.num_routed_wires / 2 }
pub fn lut_slots(c: &CircuitConfig) -> usize { c.num_routed_wires / 3 }

pub fn hash_pis(pis: &[F]) -> HashOut<F> {
    <C as plonky2::plonk::config::GenericConfig<D>>::InnerHasher::hash_no_pad(pis)
}

impl Circ {
    pub fn num_wires(&self) -> usize { self.data.common.config.num_wires }
    pub fn routed(&self) -> usize { self.data.common.config.num_routed_wires }

    /// real gate evaluators (all gates with their selector filters) on one row
    pub fn row_gate_violation(&self, m: &Matrix, row: usize, pih: &HashOut<F>) -> Option<usize> {
        let lc: Vec<FE> = self.consts[row].iter().map(|x| FE::from(*x)).collect();
        let lw: Vec<FE> = m[row].iter().map(|x| FE::from(*x)).collect();
        // The row's own gate (decoded from the selector columns by build_circ), evaluated directly through
        // Gate::eval_unfiltered on the constants after the selector prefix: independent of the loop, the
        // filters and the selector handling of plonk/vanishing_poly.rs, which are what is being judged.
        let prefix = self.data.common.selectors_info.num_selectors() + self.data.common.num_lookup_selectors;
        let vars = EvaluationVars { local_constants: &lc[prefix..], local_wires: &lw, public_inputs_hash: pih };
        let cs = self.data.common.gates[self.row_gate[row]].0.eval_unfiltered(vars);
        if let Some(i) = cs.iter().position(|c| *c != FE::ZERO) { return Some(i); }
        // cross-check with the library's combined evaluator (all gates with their filters): it must not see
        // a violation where the row's gate sees none
        let vars = EvaluationVars { local_constants: &lc, local_wires: &lw, public_inputs_hash: pih };
        let all = evaluate_gate_constraints::<F, D>(&self.data.common, vars);
        all.iter().position(|c| *c != FE::ZERO).map(|i| 1000 + i)
    }

    /// copy constraints as committed in the sigma polynomials
    pub fn copy_violation(&self, m: &Matrix) -> Option<(usize, usize)> {
        for r in 0..self.n {
            for c in 0..self.routed() {
                let (r2, c2) = self.sigma[r][c];
                if m[r][c] != m[r2][c2] { return Some((r, c)); }
            }
        }
        None
    }

    /// the lookup relation per table: (R1) every looking pair of the table's looking rows is an entry of
    /// the declared table, (R2) the table rows hold the declared table (padded with entry 0),
    /// (R3) for every pair value, the multiplicities on the table rows sum to the number of looking slots
    pub fn lookup_violation(&self, m: &Matrix) -> Option<String> {
        let cfg = &self.data.common.config;
        let (nlu, nlut) = (lu_slots(cfg), lut_slots(cfg));
        for (k, lw) in self.data.prover_only.lookup_rows.iter().enumerate() {
            let table: Vec<(u64, u64)> = self.data.common.luts[k].iter().map(|(a, b)| (*a as u64, *b as u64)).collect();
            let mut bal: HashMap<(u64, u64), i64> = HashMap::new();
            for row in lw.last_lu_gate..lw.last_lut_gate {
                for s in 0..nlu {
                    let pr = (m[row][LookupGate::wire_ith_looking_inp(s)].to_canonical_u64(),
                              m[row][LookupGate::wire_ith_looking_out(s)].to_canonical_u64());
                    if !table.contains(&pr) { return Some(format!("R1:lut{k}:row{row}:slot{s}")); }
                    *bal.entry(pr).or_insert(0) -= 1;
                }
            }
            let mut big = false;
            for row in lw.last_lut_gate..=lw.first_lut_gate {
                for s in 0..nlut {
                    let e = (lw.first_lut_gate - row) * nlut + s;
                    let want = if e < table.len() { table[e] } else { table[0] };
                    let pr = (m[row][LookupTableGate::wire_ith_looked_inp(s)].to_canonical_u64(),
                              m[row][LookupTableGate::wire_ith_looked_out(s)].to_canonical_u64());
                    if pr != want { return Some(format!("R2:lut{k}:row{row}:slot{s}")); }
                    let mu = m[row][LookupTableGate::wire_ith_multiplicity(s)].to_canonical_u64();
                    if mu > (1 << 40) { big = true; } else { *bal.entry(pr).or_insert(0) += mu as i64; }
                }
            }
            if big || bal.values().any(|v| *v != 0) { return Some(format!("R3:lut{k}")); }
        }
        None
    }

    /// The lookup selector columns of the committed constants against their specification, computed
    /// from the placement of the tables (`lookup_rows`) AND from the gates actually sitting on the rows:
    /// TransSre = 1 exactly on the table rows [last_lut, first_lut], TransLdc = 1 exactly on the looking
    /// rows [last_lu, last_lut), InitSre only on first_lut + 1, LastLdc only on last_lu, and the end
    /// selector of table k only on its last_lut. Returns the first deviation.
    pub fn lookup_selector_violation(&self) -> Option<String> {
        let common = &self.data.common;
        let base = common.selectors_info.num_selectors();
        let rows = &self.data.prover_only.lookup_rows;
        if rows.is_empty() { return None; }
        if common.num_lookup_selectors != 4 + rows.len() { return Some(format!("count:{}", common.num_lookup_selectors)); }
        for r in 0..self.n {
            let name = &self.gate_names[self.row_gate[r]];
            let in_lu = rows.iter().any(|lw| lw.last_lu_gate <= r && r < lw.last_lut_gate);
            let in_lut = rows.iter().any(|lw| lw.last_lut_gate <= r && r <= lw.first_lut_gate);
            // placement against the gates on the rows
            if (name == "LookupGate") != in_lu { return Some(format!("placement:LookupGate:row{r}")); }
            if (name == "LookupTableGate") != in_lut { return Some(format!("placement:LookupTableGate:row{r}")); }
            let mut want = vec![in_lut as u64, in_lu as u64,
                                rows.iter().any(|lw| r == lw.first_lut_gate + 1) as u64,
                                rows.iter().any(|lw| r == lw.last_lu_gate) as u64];
            for lw in rows { want.push((r == lw.last_lut_gate) as u64); }
            for (i, wv) in want.iter().enumerate() {
                if self.consts[r][base + i].to_canonical_u64() != *wv { return Some(format!("selector{i}:row{r}")); }
            }
        }
        None
    }

    /// flat arguments and result of the `lksel` correspondence op (Model/Lookup.v lookup_selectors_at)
    pub fn lksel_line(&self) -> Option<String> {
        let common = &self.data.common;
        let rows = &self.data.prover_only.lookup_rows;
        if rows.is_empty() { return None; }
        let base = common.selectors_info.num_selectors();
        let mut a = vec![self.n as u64, rows.len() as u64];
        for lw in rows { a.extend([lw.last_lu_gate as u64, lw.last_lut_gate as u64, lw.first_lut_gate as u64]); }
        let mut o = vec![];
        for r in 0..self.n { for i in 0..common.num_lookup_selectors { o.push(self.consts[r][base + i].to_canonical_u64().to_string()); } }
        Some(format!("lksel {} = {}", a.iter().map(|x| x.to_string()).collect::<Vec<_>>().join(" "), o.join(" ")))
    }

    /// everything, every row (used once on the honest witness)
    pub fn full_violation(&self, m: &Matrix, pis: &[F]) -> Option<String> {
        let pih = hash_pis(pis);
        for r in 0..self.n {
            if let Some(i) = self.row_gate_violation(m, r, &pih) { return Some(format!("gate:row{r}:constraint{i}")); }
        }
        if let Some((r, c)) = self.copy_violation(m) { return Some(format!("copy:row{r}:col{c}")); }
        self.lookup_violation(m)
    }

    /// violation of `m2`, knowing that `m1` (with public inputs `pis1`) satisfies everything
    pub fn violation_after(&self, m1: &Matrix, pis1: &[F], m2: &Matrix, pis2: &[F]) -> Option<String> {
        let pih = hash_pis(pis2);
        let pi_changed = pis1 != pis2;
        for r in 0..self.n {
            if pi_changed || m1[r] != m2[r] {
                if let Some(i) = self.row_gate_violation(m2, r, &pih) {
                    return Some(format!("gate:{}:row{r}:constraint{i}", self.gate_names[self.row_gate[r]]));
                }
            }
        }
        if let Some((r, c)) = self.copy_violation(m2) { return Some(format!("copy:row{r}:col{c}")); }
        self.lookup_violation(m2).map(|s| format!("lookup:{s}"))
    }

    /// columns of `row` that some generator of the row's gate watches (the gate's inputs)
    pub fn input_columns(&self, row: usize) -> Vec<usize> {
        let g = &self.data.common.gates[self.row_gate[row]];
        let skip = self.data.common.selectors_info.num_selectors() + self.data.common.num_lookup_selectors;
        let lc: Vec<F> = self.consts[row][skip..].to_vec();
        let gens = match catch_unwind(AssertUnwindSafe(|| g.0.generators(row, &lc))) { Ok(g) => g, Err(_) => return vec![] };
        let mut cols = vec![];
        for gen in gens {
            for t in gen.0.watch_list() {
                if let Target::Wire(w) = t { if w.row == row && !cols.contains(&w.column) { cols.push(w.column); } }
            }
        }
        cols
    }

    pub fn inputs_witness(&self, p: &Program) -> PartialWitness<F> { dsl::witness(p, &self.ins) }
}

pub fn matrix_of(part: PartitionWitness<F>, n: usize, nw: usize) -> Matrix {
    let mw = part.full_witness();
    (0..n).map(|r| (0..nw).map(|c| mw.get_wire(r, c)).collect()).collect()
}

/// A corruption of the honest assignment.
#[derive(Clone, Debug, Default)]
pub struct Corruption {
    pub presets: Vec<(usize, usize, u64)>,   // wire targets set before generation (needs skip_witness_checks)
    pub classes: Vec<(usize, usize, u64)>,   // copy class of this cell gets this value after generation
    pub cells: Vec<(usize, usize, u64)>,     // single cells overridden in the wire matrix before commitment
}

impl Corruption {
    pub fn describe(&self) -> String {
        let f = |tag: &str, v: &Vec<(usize, usize, u64)>| v.iter().map(|(r, c, x)| format!("{tag}({r},{c})={x}")).collect::<Vec<_>>().join(",");
        [f("preset", &self.presets), f("class", &self.classes), f("cell", &self.cells)].into_iter().filter(|s| !s.is_empty()).collect::<Vec<_>>().join(",")
    }
}

/// The assignment the prover would commit to for (`p`, corruption): `Err` if witness generation itself fails
/// although `skip_witness_checks` is on. Returns (partition witness to hand to the prover, matrix, claimed public inputs).
pub fn corrupted_assignment<'a>(circ: &'a Circ, p: &Program, cor: &Corruption)
    -> Result<(PartitionWitness<'a, F>, Matrix, Vec<F>), String> {
    let mut k = AdversaryKnobs { skip_witness_checks: true, ..Default::default() };
    for (i, c) in cor.cells.iter().enumerate() { k.override_cells[i] = Some(*c); }
    verif_knobs::set(k);
    let r = catch_unwind(AssertUnwindSafe(|| -> Result<_, String> {
        let mut pw = circ.inputs_witness(p);
        for (r, c, v) in &cor.presets {
            pw.set_target(Target::wire(*r, *c), F::from_canonical_u64(*v)).map_err(|e| e.to_string())?;
        }
        let mut part = generate_partial_witness(pw, &circ.data.prover_only, &circ.data.common).map_err(|e| e.to_string())?;
        for (r, c, v) in &cor.classes {
            let idx = Target::wire(*r, *c).index(part.num_wires, part.degree);
            let rep = part.representative_map[idx];
            part.values[rep] = Some(F::from_canonical_u64(*v));
        }
        let mut a = part.clone();
        set_lookup_wires(&circ.data.prover_only, &circ.data.common, &mut a).map_err(|e| e.to_string())?;
        let pis = a.get_targets(&circ.data.prover_only.public_inputs);
        let mut m = matrix_of(a, circ.n, circ.num_wires());
        for (r, c, v) in &cor.cells { m[*r][*c] = F::from_canonical_u64(*v); }
        Ok((part, m, pis))
    }));
    verif_knobs::reset();
    match r { Ok(x) => x, Err(_) => Err(format!("witness {}", panic_site())) }
}

pub const STRATEGIES: [&str; 6] = ["ignore-checks", "z-zero", "z-first", "quotient-perturb", "lenient-trim", "pow-override"];

pub fn strategy_knobs(s: &str, r: &mut Rng, num_challenges: usize) -> AdversaryKnobs {
    let mut k = AdversaryKnobs { skip_witness_checks: true, ..Default::default() };
    match s {
        "ignore-checks" => {}
        "z-zero" => { k.z_all_zero = true; k.lenient_trim = true; }
        "z-first" => { k.z_first_override = Some(match r.below(3) { 0 => 0, 1 => 2, _ => r.next_u64() % P }); k.lenient_trim = true; }
        "quotient-perturb" => { k.quotient_perturb = Some((r.below(num_challenges as u64) as usize, 1 + r.next_u64() % (P - 1))); k.lenient_trim = true; }
        "lenient-trim" => { k.lenient_trim = true; }
        "pow-override" => { k.pow_witness_override = Some(if r.coin() { r.below(4) } else { r.next_u64() % P }); k.lenient_trim = true; }
        "sldc-shift" => { k.sldc_shift = true; k.lenient_trim = true; }
        // the constant that balances the running sums enters at a given row (any row of the table's region)
        // the permutation product is closed by a factor that enters at (row, position): "z-jump@<row>.<k>"
        j if j.starts_with("z-jump@") => {
            let mut it = j["z-jump@".len()..].split('.');
            let row: usize = it.next().unwrap().parse().unwrap();
            let pos: usize = it.next().unwrap().parse().unwrap();
            k.zpp_jump = Some((row, pos));
            k.lenient_trim = true;
        }
        j if j.starts_with("sldc-jump@") => { k.sldc_jump_row = Some(j["sldc-jump@".len()..].parse().unwrap()); k.lenient_trim = true; }
        _ => unreachable!(),
    }
    k
}

/// Run the prover with the knobs on this partition witness; returns "prove-err", "prove-panic", "rejected",
/// "verify-panic" or "ACCEPTED" plus a detail string.
pub fn adversarial_prove(circ: &Circ, part: PartitionWitness<F>, cor: &Corruption, k: AdversaryKnobs) -> (String, String) {
    let (a, b, _) = adversarial_prove_full(circ, part, cor, k);
    (a, b)
}

/// as `adversarial_prove`, also handing back the proof the prover emitted (if any)
pub fn adversarial_prove_full(circ: &Circ, part: PartitionWitness<F>, cor: &Corruption, mut k: AdversaryKnobs) -> (String, String, Option<Pwpi>) {
    for (i, c) in cor.cells.iter().enumerate() { k.override_cells[i] = Some(*c); }
    verif_knobs::set(k);
    let r = catch_unwind(AssertUnwindSafe(|| {
        prove_with_partition_witness(&circ.data.prover_only, &circ.data.common, part, &mut TimingTree::default())
    }));
    verif_knobs::reset();
    match r {
        Err(_) => ("prove-panic".into(), panic_site(), None),
        Ok(Err(e)) => ("prove-err".into(), e.to_string().chars().take(60).map(|c| if c == ' ' { '_' } else { c }).collect(), None),
        Ok(Ok(proof)) => match verdict(&circ.data, proof.clone()) {
            "ok" => ("ACCEPTED".into(), String::new(), Some(proof)),
            "err" => {
                // the other verification entry point: compress, then verify_compressed (a panic there is C18's business)
                let comp = catch_unwind(AssertUnwindSafe(|| circ.data.compress(proof.clone()).and_then(|c| circ.data.verify_compressed(c))));
                if matches!(comp, Ok(Ok(()))) { ("ACCEPTED".into(), "by-verify_compressed".into(), Some(proof)) } else { ("rejected".into(), String::new(), Some(proof)) }
            }
            _ => ("verify-panic".into(), panic_site(), None),
        },
    }
}

/// `plonkverify` line for the Gallina verifier (Model/Plonk.v): the same proof must get the same verdict there
pub fn dump_for_model(w: &mut dyn Write, circ: &Circ, proof: &Pwpi, accepted: bool) -> usize {
    let mut o = vec![];
    if dump_common(&mut o, &circ.data.common).is_err() { return 0; }
    dump_verifier_only(&mut o, &circ.data.verifier_only);
    dump_proof(&mut o, proof);
    writeln!(w, "{}", line("plonkverify", &o, if accepted { "1" } else { "0" })).unwrap();
    1
}

pub fn extra_configs() -> Vec<(&'static str, CircuitConfig)> {
    let std = CircuitConfig::standard_recursion_config();
    let fri = |rate, cap, pow, q| fri_config(rate, cap, pow, FriReductionStrategy::ConstantArityBits(3, 3), q);
    vec![
        // quotient degree factors that are not powers of two: the prover's own divisibility check is live
        ("qdf7", CircuitConfig { max_quotient_degree_factor: 7, num_challenges: 2, security_bits: 20, fri_config: fri(3, 1, 2, 6), ..std.clone() }),
        ("qdf12_rate4", CircuitConfig { max_quotient_degree_factor: 12, num_challenges: 2, security_bits: 20, fri_config: fri(4, 2, 1, 5), ..std.clone() }),
    ]
}

fn alt_value(r: &mut Rng, old: u64) -> u64 {
    match r.below(4) {
        0 => (old + 1) % P,
        1 => if old == 0 { 1 } else { 0 },
        2 => (old + P - 1) % P,
        _ => { let v = r.next_u64() % P; if v == old { (v + 1) % P } else { v } }
    }
}

struct Ctx<'a> {
    circ: &'a Circ,
    p: &'a Program,
    m0: Matrix,
    pis0: Vec<F>,
    pi: usize,
    cname: &'a str,
    strategies: Vec<&'static str>,
    all_strategies: bool,
    case_no: usize,
    skipped: usize,
    skipped_classes: HashMap<String, usize>,
    lines: usize,
    dumps_left: usize,
}

impl<'a> Ctx<'a> {
    /// returns true when the corruption violated the circuit (and was run), false when it was skipped
    fn run_case(&mut self, w: &mut dyn Write, r: &mut Rng, class: &str, cor: &Corruption) -> bool {
        let (part, m, pis) = match corrupted_assignment(self.circ, self.p, cor) {
            Ok(x) => x,
            Err(e) => {
                // witness generation fails even with the checks off: an explicit refusal
                writeln!(w, "c02 {} {} {} ignore-checks = 1 # {} violated=unknown outcome=witness-err:{}", self.pi, self.cname, class,
                         cor.describe(), e.replace(' ', "_")).unwrap();
                self.lines += 1;
                return true;
            }
        };
        let viol = match self.circ.violation_after(&self.m0, &self.pis0, &m, &pis) {
            None => { self.skipped += 1; *self.skipped_classes.entry(class.to_string()).or_insert(0) += 1; return false; }
            Some(v) => v,
        };
        self.case_no += 1;
        let nch = self.circ.data.common.config.num_challenges;
        let strategies: Vec<&str> = if self.all_strategies { self.strategies.clone() } else {
            // the plain run always; the degenerate strategies rotate over the cases
            let others: Vec<&str> = self.strategies.iter().copied().filter(|s| *s != "ignore-checks").collect();
            let mut v = vec!["ignore-checks"];
            if !others.is_empty() { v.push(others[self.case_no % others.len()]); }
            v
        };
        for s in strategies {
            let k = strategy_knobs(s, r, nch);
            let (out, det, proof) = adversarial_prove_full(self.circ, part.clone(), cor, k);
            let ok = (out != "ACCEPTED") as u8;
            writeln!(w, "c02 {} {} {} {} = {} # {} violated={} outcome={} {} knobs=z1:{:?},q:{:?},pow:{:?}", self.pi, self.cname, class, s, ok,
                     cor.describe(), viol, out, det, k.z_first_override, k.quotient_perturb, k.pow_witness_override).unwrap();
            self.lines += 1;
            // a few of the emitted proofs (small circuits) are also replayed by the Gallina verifier
            if let Some(pr) = proof {
                if self.dumps_left > 0 && self.circ.data.common.degree_bits() <= 5 && self.case_no % 7 == 0 {
                    self.dumps_left -= 1;
                    self.lines += dump_for_model(w, self.circ, &pr, out == "ACCEPTED");
                }
            }
        }
        // a violated copy constraint with the permutation product closed by a factor that enters at a chosen
        // (row, partial product): every relation of the running product holds except the one defining that
        // position - the honest algorithm leaves the defect at the very last relation only
        if viol.starts_with("copy:") {
            let np = self.circ.data.common.num_partial_products;
            let n = self.circ.n;
            let crow = cor.cells.first().or(cor.presets.first()).or(cor.classes.first()).map(|c| c.0).unwrap_or(0);
            let mut spots = vec![(crow, np / 2), (0usize, 0usize), (crow, np), (r.below(n as u64) as usize, r.below(np as u64 + 1) as usize)];
            if self.all_strategies { spots.extend([(crow, 0), (n - 1, np), (n - 1, np.saturating_sub(1)), (n / 2, 1.min(np))]); }
            spots.sort(); spots.dedup();
            for (row, pos) in spots {
                let s = format!("z-jump@{row}.{pos}");
                let k = strategy_knobs(&s, r, nch);
                let (out, det, _) = adversarial_prove_full(self.circ, part.clone(), cor, k);
                writeln!(w, "c02 {} {} {} {} = {} # {} violated={} outcome={} {} knobs=zpp:{:?}", self.pi, self.cname, class, s, (out != "ACCEPTED") as u8,
                         cor.describe(), viol, out, det, k.zpp_jump).unwrap();
                self.lines += 1;
            }
        }
        true
    }
}

/// classes of cells: copy classes as committed (cycles of sigma), restricted to routed wires
fn sigma_cycle(circ: &Circ, start: (usize, usize)) -> Vec<(usize, usize)> {
    let mut v = vec![start];
    let mut cur = circ.sigma[start.0][start.1];
    while cur != start && v.len() <= circ.n * circ.routed() { v.push(cur); cur = circ.sigma[cur.0][cur.1]; }
    v
}

pub fn run_program(w: &mut dyn Write, r: &mut Rng, pi: usize, cname: &str, cfg: &CircuitConfig, p: &Program, tier: &str) -> usize {
    let circ = match build_circ(p, cfg) {
        Ok(c) => c,
        Err(e) => { writeln!(w, "c02honest {pi} {cname} = 0 # build failed: {e}").unwrap(); return 1; }
    };
    run_program_on(w, r, pi, cname, cfg, p, tier, circ)
}

pub fn run_program_on(w: &mut dyn Write, r: &mut Rng, pi: usize, cname: &str, cfg: &CircuitConfig, p: &Program, tier: &str, circ: Circ) -> usize {
    // honest assignment
    let honest = Corruption::default();
    let (part0, m0, pis0) = match corrupted_assignment(&circ, p, &honest) {
        Ok(x) => x,
        Err(e) => { writeln!(w, "c02honest {pi} {cname} = 0 # honest witness failed: {e}").unwrap(); return 1; }
    };
    let sat = circ.full_violation(&m0, &pis0);
    // the committed sigma cycles must be exactly the builder's copy classes (restricted to routed wires)
    let rep = &circ.data.prover_only.representative_map;
    let nw = circ.num_wires();
    let mut cyc_ok = true;
    let mut ncycles = 0;
    let mut seen = vec![false; circ.n * circ.routed()];
    let mut class_reps = std::collections::HashSet::new();
    for r0 in 0..circ.n { for c0 in 0..circ.routed() {
        class_reps.insert(rep[r0 * nw + c0]);
        if seen[r0 * circ.routed() + c0] { continue; }
        ncycles += 1;
        for (a, b) in sigma_cycle(&circ, (r0, c0)) {
            seen[a * circ.routed() + b] = true;
            if rep[a * nw + b] != rep[r0 * nw + c0] { cyc_ok = false; }
        }
    } }
    if ncycles != class_reps.len() { cyc_ok = false; }
    let (out, det) = adversarial_prove(&circ, part0.clone(), &honest, AdversaryKnobs::default());
    let ok = (sat.is_none() && cyc_ok && out == "ACCEPTED") as u8;
    writeln!(w, "c02honest {pi} {cname} = {ok} # rows={} gates={} satisfied={} sigma_cycles_eq_copy_classes={} classes={} verify={} {}",
             circ.n, circ.data.common.gates.len(), sat.clone().unwrap_or("yes".into()), cyc_ok, ncycles, out, det).unwrap();
    let mut lines = 1;
    if ok == 0 { return lines; }
    // the link between the witness and the DECLARED public inputs: an honest proof whose declared vector is
    // altered afterwards (one value changed; extended by a zero - hash_no_pad does not separate [x] from [x, 0];
    // shortened) must be rejected by verify and by verify_compressed
    {
        verif_knobs::reset();
        let honest_proof = catch_unwind(AssertUnwindSafe(|| prove_with_partition_witness(&circ.data.prover_only, &circ.data.common, part0.clone(), &mut TimingTree::default())));
        if let Ok(Ok(p0)) = honest_proof {
            let mut variants: Vec<(&str, Pwpi)> = vec![];
            let mut q = p0.clone(); q.public_inputs.push(F::ZERO); variants.push(("appended-zero", q));
            let mut q = p0.clone(); for _ in 0..8 { q.public_inputs.push(F::ZERO); } variants.push(("appended-8-zeros", q));
            let mut q = p0.clone(); q.public_inputs.push(F::from_canonical_u64(1 + r.below(1000))); variants.push(("appended-value", q));
            let mut q = p0.clone(); if q.public_inputs.pop().is_some() { variants.push(("dropped-last", q)); }
            let mut q = p0.clone(); if let Some(x) = q.public_inputs.first_mut() { *x += F::ONE; variants.push(("first-changed", q)); }
            for (name, q) in variants {
                let plain = verdict(&circ.data, q.clone());
                let comp = match catch_unwind(AssertUnwindSafe(|| circ.data.compress(q.clone()).and_then(|c| circ.data.verify_compressed(c)))) {
                    Ok(Ok(())) => "ok", Ok(Err(_)) => "err", Err(_) => "panic" };
                let out = if plain == "ok" || comp == "ok" { "ACCEPTED" } else { "rejected" };
                writeln!(w, "c02 {pi} {cname} declared-public-inputs ignore-checks = {} # {name} violated=public-inputs outcome={out} verify={plain} verify_compressed={comp}",
                         (out != "ACCEPTED") as u8).unwrap();
                lines += 1;
            }
        }
    }

    // strategies on the honest witness: every knob has an observable effect
    let nch = cfg.num_challenges;
    for s in STRATEGIES {
        let k = strategy_knobs(s, r, nch);
        let (out, det) = adversarial_prove(&circ, part0.clone(), &honest, k);
        let degenerate = matches!(s, "z-zero" | "quotient-perturb") || (s == "z-first" && k.z_first_override != Some(1));
        // pow-override on an honest witness is accepted exactly when the overriding witness happens to grind
        let expect_ok = !degenerate;
        let good = if s == "pow-override" { true } else { (out == "ACCEPTED") == expect_ok };
        writeln!(w, "c02knob {pi} {cname} {s} = {} # outcome={} {} knobs=z1:{:?},q:{:?},pow:{:?}", good as u8, out, det,
                 k.z_first_override, k.quotient_perturb, k.pow_witness_override).unwrap();
        lines += 1;
    }

    let thorough = tier == "thorough";
    let mut cx = Ctx { circ: &circ, p, m0: m0.clone(), pis0: pis0.clone(), pi, cname, strategies: STRATEGIES.to_vec(),
                       all_strategies: thorough, case_no: r.below(5) as usize, skipped: 0, skipped_classes: HashMap::new(), lines: 0,
                       dumps_left: if thorough { 6 } else { 2 } };

    // ---- per gate type: input / output (routed) / intermediate (advice) wires
    let ngates = circ.data.common.gates.len();
    for gi in 0..ngates {
        let rows: Vec<usize> = (0..circ.n).filter(|r| circ.row_gate[*r] == gi).collect();
        if rows.is_empty() { continue; }
        let mut pick_rows = vec![rows[0]];
        if rows.len() > 1 { pick_rows.push(*r.pick(&rows)); }
        if thorough && rows.len() > 2 { pick_rows.push(rows[rows.len() - 1]); }
        pick_rows.dedup();
        for row in pick_rows {
            let ins = circ.input_columns(row);
            let roles: [(&str, Vec<usize>); 3] = [
                ("input", ins.clone()),
                ("output", (0..circ.routed()).filter(|c| !ins.contains(c)).collect()),
                ("intermediate", (circ.routed()..nw).filter(|c| !ins.contains(c)).collect()),
            ];
            for (role, cols) in roles.iter() {
                if cols.is_empty() { continue; }
                let class = format!("{}.{}", circ.gate_names[gi], role);
                // a constrained column of that role: try a few
                let mut done = 0;
                for _try in 0..8 {
                    let col = *r.pick(cols);
                    let cor = Corruption { cells: vec![(row, col, alt_value(r, m0[row][col].to_canonical_u64()))], ..Default::default() };
                    if cx.run_case(w, r, &class, &cor) { done += 1; if done >= (if thorough { 2 } else { 1 }) { break; } }
                }
            }
            // an output cell that is ALONE in its copy class (e.g. a constant nobody uses): only this row's gate
            // constraints can object to its corruption
            let lonely: Vec<usize> = (0..circ.routed()).filter(|c| !ins.contains(c) && circ.sigma[row][*c] == (row, *c)).collect();
            // (most lonely cells of a row are unused routed wires: walk the columns until one is constrained)
            let pih0 = hash_pis(&pis0);
            for &col in lonely.iter() {
                let v = alt_value(r, m0[row][col].to_canonical_u64());
                let mut m1 = m0.clone();
                m1[row][col] = F::from_canonical_u64(v);
                if circ.row_gate_violation(&m1, row, &pih0).is_none() { continue; }
                let cor = Corruption { cells: vec![(row, col, v)], ..Default::default() };
                if cx.run_case(w, r, &format!("{}.lonely-output", circ.gate_names[gi]), &cor) { break; }
            }
            // the gate's output wire set by the adversary BEFORE generation (generator conflict ignored)
            let outs: Vec<usize> = (0..circ.routed()).filter(|c| !ins.contains(c)).collect();
            for _try in 0..4 {
                if outs.is_empty() { break; }
                let col = *r.pick(&outs);
                let cor = Corruption { presets: vec![(row, col, alt_value(r, m0[row][col].to_canonical_u64()))], ..Default::default() };
                if cx.run_case(w, r, &format!("{}.preset-output", circ.gate_names[gi]), &cor) { break; }
            }
        }
    }
    // ---- a member of a copy class with at least two routed cells; the whole class
    let mut multi: Vec<Vec<(usize, usize)>> = vec![];
    let mut seen = vec![false; circ.n * circ.routed()];
    for r0 in 0..circ.n { for c0 in 0..circ.routed() {
        if seen[r0 * circ.routed() + c0] { continue; }
        let cyc = sigma_cycle(&circ, (r0, c0));
        for (a, b) in &cyc { seen[a * circ.routed() + b] = true; }
        if cyc.len() >= 2 { multi.push(cyc); }
    } }
    for _ in 0..(if thorough { 6 } else { 2 }) {
        if multi.is_empty() { break; }
        let cyc = r.pick(&multi).clone();
        let (row, col) = *r.pick(&cyc);
        let v = alt_value(r, m0[row][col].to_canonical_u64());
        cx.run_case(w, r, "copy-member", &Corruption { cells: vec![(row, col, v)], ..Default::default() });
        let (row, col) = *r.pick(&cyc);
        cx.run_case(w, r, "copy-class-value", &Corruption { classes: vec![(row, col, v)], ..Default::default() });
    }
    // ---- each public input: the value of its copy class changes (the claimed public input changes with it)
    let pi_targets = circ.data.prover_only.public_inputs.clone();
    for (j, t) in pi_targets.iter().enumerate() {
        if !thorough && j >= 3 { break; }
        // a routed cell in the class of the public-input target
        let idx = t.index(nw, circ.n);
        let cell = (0..circ.n * nw).find(|i| rep[*i] == rep[idx] && i % nw < circ.routed());
        if let Some(i) = cell {
            let (row, col) = (i / nw, i % nw);
            let v = alt_value(r, m0[row][col].to_canonical_u64());
            cx.run_case(w, r, "public-input", &Corruption { classes: vec![(row, col, v)], ..Default::default() });
        }
    }
    // the PublicInputGate's hash wires themselves are covered by the per-gate sweep (PublicInputGate.output)
    // ---- looked-up pairs and multiplicities
    let (nlu, nlut) = (lu_slots(cfg), lut_slots(cfg));
    let lrows = circ.data.prover_only.lookup_rows.clone();
    for (kk, lw) in lrows.iter().enumerate() {
        let nlook = circ.data.prover_only.lut_to_lookups[kk].len();
        let table = circ.data.common.luts[kk].clone();
        let slot = r.below(nlook as u64) as usize;
        let (row, s) = (lw.last_lu_gate + slot / nlu, slot % nlu);
        let (ci, co) = (LookupGate::wire_ith_looking_inp(s), LookupGate::wire_ith_looking_out(s));
        let old_out = m0[row][co].to_canonical_u64();
        // output altered: single cell, the whole variable, preset before generation
        let mk = |what: usize, cells: Vec<(usize, usize, u64)>| match what {
            0 => Corruption { cells, ..Default::default() },
            1 => Corruption { classes: cells, ..Default::default() },
            _ => Corruption { presets: cells, ..Default::default() },
        };
        let d = [1 + r.below(5), 1 + r.below(5), 1 + r.below(5)];
        cx.run_case(w, r, "lookup-out-cell", &mk(0, vec![(row, co, (old_out + d[0]) % P)]));
        cx.run_case(w, r, "lookup-out-variable", &mk(1, vec![(row, co, (old_out + d[1]) % P)]));
        cx.run_case(w, r, "lookup-out-preset", &mk(2, vec![(row, co, (old_out + d[2]) % P)]));
        // input altered: another entry's input with the old output / a value outside every table
        let (e_in, _) = *r.pick(&table);
        let outside = 70000 + r.below(1000);
        cx.run_case(w, r, "lookup-inp-cell", &mk(0, vec![(row, ci, e_in as u64)]));
        cx.run_case(w, r, "lookup-inp-variable", &mk(1, vec![(row, ci, outside)]));
        // a pair of another table
        if lrows.len() > 1 {
            let other = (kk + 1 + r.below(lrows.len() as u64 - 1) as usize) % lrows.len();
            let (a, b) = *r.pick(&circ.data.common.luts[other]);
            cx.run_case(w, r, "lookup-pair-other-table-cells", &mk(0, vec![(row, ci, a as u64), (row, co, b as u64)]));
            cx.run_case(w, r, "lookup-pair-other-table-variables", &mk(1, vec![(row, ci, a as u64), (row, co, b as u64)]));
        }
        // multiplicity and table cells
        let e = r.below(table.len() as u64) as usize;
        let (trow, ts) = (lw.first_lut_gate - e / nlut, e % nlut);
        let cm = LookupTableGate::wire_ith_multiplicity(ts);
        let oldm = m0[trow][cm].to_canonical_u64();
        let newm = if r.coin() { oldm + 1 } else { (oldm + P - 1) % P };
        cx.run_case(w, r, "lookup-multiplicity", &mk(0, vec![(trow, cm, newm)]));
        let ct = if r.coin() { LookupTableGate::wire_ith_looked_inp(ts) } else { LookupTableGate::wire_ith_looked_out(ts) };
        cx.run_case(w, r, "lookup-table-cell", &mk(0, vec![(trow, ct, (m0[trow][ct].to_canonical_u64() + 1) % P)]));
        // wrong pair hidden by a shifted running sum (the start value of the sum is adversarial): regression test of the
        // defect fixed in repo commit bfbd0f1
        let k = strategy_knobs("sldc-shift", r, nch);
        let cor = Corruption { classes: vec![(row, co, (old_out + 1) % P)], ..Default::default() };
        if let Ok((part, m, pis)) = corrupted_assignment(&circ, p, &cor) {
            if let Some(v) = circ.violation_after(&m0, &pis0, &m, &pis) {
                // only meaningful when nothing but the lookup relation is violated
                let (out, det, proof) = adversarial_prove_full(&circ, part, &cor, k);
                writeln!(w, "c02 {pi} {cname} lookup-out-variable sldc-shift = {} # {} violated={} outcome={} {}", (out != "ACCEPTED") as u8,
                         cor.describe(), v, out, det).unwrap();
                cx.lines += 1;
                if let Some(pr) = proof {
                    if kk == 0 && circ.data.common.degree_bits() <= 5 { cx.lines += dump_for_model(w, &circ, &pr, out == "ACCEPTED"); }
                }
            }
        }
    }
    let mut sk: Vec<String> = cx.skipped_classes.iter().map(|(k, v)| format!("{k}:{v}")).collect();
    sk.sort();
    writeln!(w, "c02skip {pi} {cname} = {} # corruptions leaving the circuit satisfied: {}", cx.skipped, sk.join(",")).unwrap();
    lines + cx.lines + 1
}

// ------------------------------------------------------------------ check_partial_products correspondence
fn cpp_cases(w: &mut dyn Write, r: &mut Rng, count: usize) -> usize {
    let mut n = 0;
    let rnd = |r: &mut Rng| -> FE {
        let a = match r.below(6) { 0 => 0, 1 => 1, 2 => P - 1, _ => r.next_u64() % P };
        let b = match r.below(4) { 0 => 0, _ => r.next_u64() % P };
        QuadraticExtension([F::from_canonical_u64(a), F::from_canonical_u64(b)])
    };
    for i in 0..count {
        let max_degree = 1 + r.below(9) as usize; // 1 is below the debug_assert bound but fine in release
        let len = r.below(30) as usize;
        let chunks = if max_degree == 0 { 0 } else { (len + max_degree - 1) / max_degree };
        // mostly well-formed (chunks - 1 partials), sometimes off by one / mismatching lengths
        let np = match i % 7 { 0 => chunks, 1 => chunks.saturating_sub(2), _ => chunks.saturating_sub(1) };
        let dlen = if i % 11 == 3 { len + 1 + r.below(8) as usize } else { len };
        let nums: Vec<FE> = (0..len).map(|_| rnd(r)).collect();
        let dens: Vec<FE> = (0..dlen).map(|_| rnd(r)).collect();
        let parts: Vec<FE> = (0..np).map(|_| rnd(r)).collect();
        let (zx, zgx) = (rnd(r), rnd(r));
        let mut args: Vec<u64> = vec![max_degree as u64];
        exts(&mut args, &nums);
        exts(&mut args, &dens);
        exts(&mut args, &parts);
        ext(&mut args, &zx);
        ext(&mut args, &zgx);
        let res = catch_unwind(AssertUnwindSafe(|| check_partial_products(&nums, &dens, &parts, zx, zgx, max_degree)));
        let rs = match res {
            Ok(v) => { let mut o = vec![]; for x in &v { ext(&mut o, x) } o.iter().map(|x| x.to_string()).collect::<Vec<_>>().join(" ") }
            Err(_) => "fail".to_string(),
        };
        writeln!(w, "{}", line("cpp", &args, &rs)).unwrap();
        n += 1;
    }
    n
}

pub fn run(seed: u64, tier: &str, w: &mut dyn Write) -> usize {
    // Rng::new(s) and Rng::new(s + d) are the same splitmix stream shifted by d draws: decorrelate by forking
    let mut r = Rng::new(seed ^ 0xC02).fork();
    let thorough = tier == "thorough";
    let mut n = cpp_cases(w, &mut r, if thorough { 4000 } else { 400 });
    let cfgs = configs();
    // (config, gadget families, program size)
    let mut plan: Vec<(&str, CircuitConfig, u32, usize)> = vec![];
    let by = |name: &str| cfgs.iter().find(|c| c.0 == name).unwrap().1.clone();
    let ex = extra_configs();
    plan.push(("std_small", by("std_small"), 127, 24));
    plan.push(("qdf7", ex[0].1.clone(), 31, 20));
    plan.push(("std_small", by("std_small"), 97, 20));
    plan.push(("arity2_cap1_c3", by("arity2_cap1_c3"), 23, 16));
    plan.push(("qdf12_rate4", ex[1].1.clone(), 23, 18));
    if thorough {
        plan.push(("zk", by("zk"), 31, 30));
        plan.push(("fixed_12", by("fixed_12"), 15, 40));
        plan.push(("narrow", narrow_config(), 127, 24));
        plan.push(("qdf7", ex[0].1.clone(), 7, 40));
        plan.push(("std_small", by("std_small"), 17, 12));
        plan.push(("qdf12_rate4", ex[1].1.clone(), 19, 30));
        plan.push(("std_small", by("std_small"), 31, 100));
        plan.push(("arity1_cap0", by("arity1_cap0"), 15, 140));
    }
    // circuits whose gate count is exactly a power of two: no padding NoopGate, the sorted gate list starts
    // with a real gate (no zero knowledge, no lookups)
    for (k, (size, kinds)) in [(6usize, 9u32), (10, 11), (14, 15)].iter().enumerate() {
        if !thorough && k >= 2 { break; }
        let p = gen_program(&mut r, *size, *kinds);
        let cfg = by("std_small");
        match build_circ_unpadded(&p, &cfg) {
            Some((circ, extra)) => {
                writeln!(w, "c02info unpadded{k} rows={} gates={:?} extra_muls={extra}", circ.n, circ.gate_names).unwrap();
                n += run_program_on(w, &mut r, 90 + k, "std_small_unpadded", &cfg, &p, tier, circ);
            }
            None => { writeln!(w, "c02info unpadded{k} no power-of-two gate count found").unwrap(); }
        }
    }
    for (pi, (cname, cfg, kinds, size)) in plan.iter().enumerate() {
        let p = gen_program(&mut r, *size, *kinds);
        n += run_program(w, &mut r, pi, cname, cfg, &p, tier);
    }
    n
}

#[allow(dead_code)]
fn _unused<FF: Extendable<2>>() {}
