"""C17 - Binary encodings round-trip and restored circuits are interchangeable.

Three layers:
  1. theorems of coq/Props/C17.v: for every codec of the proof / verifier-data formats
     read_X (write_X x ++ rest) = Some (x, rest) for ALL values under the writer's guard, with the
     boundary facts (non-canonical field bytes accepted, bool bytes, 255-sibling limit, cap lengths);
  2. byte-exact correspondence: `enc_* / dec_*` lines produced by the REAL writers and readers
     (harness/src/c17.rs through the public traits Write / Read / Buffer) replayed by the extracted
     model (Model/C17Run.v) and, independently, by tools/spec_c17.py;
  3. implementation-level round trips `c17 <circuit> <case> = 1|0`: from_bytes(to_bytes(x)) == x and
     identical re-encoding for proofs, compressed proofs, verifier-only / common / verifier /
     prover / full circuit data; restored circuits prove, cross-verify and keep their digest; a
     circuit with every registered gate type; which registered generator types were reached."""
import json, os, re, sys
from checklib import *
import spec_c17


def main():
    a = std_args().parse_args()
    c = Check("C17", a.tier, a.seed)
    if a.replay:
        r = json.load(open(a.replay)); c.seed, c.tier = r["seed"], r["tier"]
    ok_mk, log = c.make(["Props/C17.vo", "Model/C17Run.vo"])
    thms = theorems_of("Props/C17.v")
    assumptions = c.audit("Props.C17", thms) if ok_mk else {}
    binary = c.build_harness("release")
    casefile = os.path.join(c.work, "cases.txt")
    n, dist, fails, samples, registry = 0, {}, [], [], []
    oracle_n, oracle_fails, opdist = 0, [], {}
    total, mism = (0, 0), []
    if binary and c.run_harness(binary, "c17", casefile, timeout=6000):
        for line in open(casefile):
            if not line.startswith("c17 "):
                continue
            body, _, desc = line.partition("#")
            f = body.split()
            circuit, case, ok = f[1], f[2], f[4]
            n += 1
            dist[case] = dist.get(case, 0) + 1
            if circuit == "registry" or case == "every-registered-gate-present":
                registry.append(line.strip()[:400])
            if ok != "1":
                fails.append({"circuit": circuit, "case": case, "detail": desc.strip()[:300]})
            elif len(samples) < 8 and n % 23 == 0:
                samples.append(line.strip()[:200])
        # property oracle over the implementation's enc / dec results
        for lineno, op, args, res in parse_case_lines(casefile):
            if not (op.startswith("enc_") or op.startswith("dec_")):
                continue
            oracle_n += 1
            opdist[op] = opdist.get(op, 0) + 1
            msg = spec_c17.check(op, args, res)
            if msg is not None and len(oracle_fails) < 20:
                oracle_fails.append({"line": lineno, "op": op, "args": args[:40], "impl": res[:40], "why": msg})
        if ok_mk:
            cli = c.build_model_cli()
            if cli:
                counts, mism, total = c.run_model(cli, "c17", casefile)
                if mism:
                    c.broken.append("Model/Codec.v disagrees with the real writers/readers on %d cases, first: %s"
                                    % (total[1], mism[0][:300]))
    for f in fails[:10]:
        c.violation(f, "from_bytes(to_bytes(x)) == x, identical re-encoding, restored circuit interchangeable", f["detail"],
                    "round trip failed: %s %s (%s)" % (f["circuit"], f["case"], re.sub(r"\d+", "N", f["detail"])[:120]))
    for f in oracle_fails[:10]:
        c.violation(f, "bytes / values as defined by the format", f["why"],
                    "implementation contradicts the byte format: %s %s" % (f["op"], f["why"]))
    # in-Coq subset (no extraction): a few encodings / decodings through vm_compute
    incoq = None
    if ok_mk:
        incoq = c.coq_eval_subset(["Model.Codec", "Model.C17Run"], [
            "run_enc_usize [258]", "run_enc_field [18446744069414584326]",
            "run_dec_field [6;0;0;0;255;255;255;255]", "run_dec_bool [2]", "run_dec_strategy [2;1;5;0;0;0;0;0;0;0;9]",
            "run_enc_mproof [1;1;2;3;4]"])
    if a.replay:
        print("replay: %d failing round trips, %d format contradictions" % (len(fails), len(oracle_fails)))
        sys.exit(1 if c.violations else 0)
    nthm = len(thms)
    coverage = {
        "obligations": nthm, "discharged": len([t for t in thms if assumptions.get(t, "").startswith("Closed")]),
        "checker_cmd": "make -C coq Props/C17.vo Model/C17Run.vo && coqc Audit (Print Assumptions)",
        "trusted_base": ["Coq 8.16.1 kernel + vm_compute", "ExtrOcamlBasic + ExtrOcamlZBigInt, OCaml 4.13.1, zarith, extract/main.ml",
                         "harness/src/c17.rs, tools/spec_c17.py (independent Python codec)"],
        "theorems": {t: assumptions.get(t, "not checked") for t in thms},
        "correspondence_cases": total[0], "correspondence_mismatches": total[1],
        "oracle_checked": oracle_n, "oracle_failures": len(oracle_fails), "op_distribution": opdist,
        "circuit_roundtrip_cases": n, "circuit_roundtrip_failures": len(fails), "distribution": dist,
        "registry": registry, "samples": samples or ["none"], "in_coq_subset": incoq,
        "evaluations": n + oracle_n, "distinct_nontrivial": len(dist) + len(opdist),
        "rule": "corpus circuits over 11 configurations (zero knowledge, lookups, all gadget families) + a conditional-recursion "
                "circuit with every registered gate; enc/dec lines: boundary + random values per type, valid / extended / truncated / "
                "byte-substituted encodings; distinct = round-trip case kinds + codec operations",
    }
    c.finish("proof", coverage, [
        "theorems cover the proof / verifier-data / configuration codecs (Model/Codec.v), tied byte for byte to the real writers and readers",
        "gate and generator registries, CommonCircuitData gates, ProverOnlyCircuitData and compressed proofs are covered by implementation-level "
        "round trips only (no model); NonzeroTestGenerator and SplitGenerator are registered but not constructible through the builder API",
        "read_field has no range check (release semantics modelled; a debug build panics on non-canonical bytes - C18)",
        "length prefixes between ~2^12 and 2^61 are excluded from dec cases: Vec::with_capacity(len) aborts the process (C18 matter)"])
