"""C20 - Conditional and cyclic recursion enforce exactly the selected verification."""
import json, os, re, sys
from checklib import *
import spec_c06, spec_c20

def main():
    a = std_args().parse_args()
    c = Check("C20", a.tier, a.seed)
    if a.replay:
        r = json.load(open(a.replay)); c.seed, c.tier = r["seed"], r["tier"]
    ok_mk, log = c.make(["Props/C20.vo"])
    thms = theorems_of("Props/C20.v")
    assumptions = c.audit("Props.C20", thms) if ok_mk and thms else {}
    binary = c.build_harness("release")
    casefile = os.path.join(c.work, "cases.txt")
    n, dist, fails, samples, subjects, refused = 0, {}, [], [], set(), []
    if binary and c.run_harness(binary, "c20", casefile, timeout=7200):
        for line in open(casefile):
            if not line.startswith("c20 "):
                continue
            body, _, desc = line.partition("#")
            f = body.split()
            subject, case, res = f[1], f[2], f[4:]
            info = spec_c06.parse_info(desc)
            n += 1
            subjects.add(subject)
            cls = re.sub(r"\d+", "", case.split("-")[0]) if subject != "cyclic" else "cyclic-" + re.sub(r"\d+", "", case)
            if case.startswith("cond-") or case.startswith("ordummy-"):
                cls = "-".join(case.split("-")[:2]) + (":selected-valid" if info.get("native") == "ok" else ":selected-invalid")
            if res and res[0] == "-":
                refused.append("%s %s: %s" % (subject, case, desc.strip()[:160]))
                cls += ":refused"
            dist[cls] = dist.get(cls, 0) + 1
            why = spec_c20.check("c20", [subject, case], res, info)
            if why:
                fails.append({"subject": subject, "case": case, "why": why, "line": line.strip()[:400]})
            elif len(samples) < 8 and n % 41 == 1:
                samples.append(line.strip()[:220])
        if n == 0:
            c.broken.append("harness produced no c20 cases")
    seen = set()
    for f in fails:
        what = "subject=%s case=%s: %s" % (f["subject"], re.sub(r"\d+", "N", f["case"]), re.sub(r"\s*\(.*\)", "", f["why"]).strip()[:160])
        if what in seen:
            continue
        seen.add(what)
        c.violation(f, "accepted exactly when the selected pair is valid; chain proofs verify and carry the verifier data; altered data rejected",
                    f["line"], what)
    if a.replay:
        print("replay: %d failing cases" % len(fails)); sys.exit(1 if c.violations else 0)
    coverage = {
        "programs": len(subjects), "disagreements_checked": n, "disagreements_found": len(fails),
        "samples": samples or ["none"], "distribution": dist, "evaluations": n, "distinct_nontrivial": len(dist),
        "refused_shapes": refused,
        "rule": "conditionally_verify_proof on one outer circuit with a witness bit: both condition values x {valid, altered} for each branch (alterations: opening value, foreign verifier data; thorough: also query leaf, final polynomial, public input, cap, PoW witness, digest), compared with the native verdict of the SELECTED pair; select_proof_with_pis / select_verifier_data outputs exposed and compared element-wise with the chosen input; conditionally_verify_proof_or_dummy with both condition values; dummy_circuit + dummy_proof for every inner shape of the C06 corpus and for bare noop shapes; cyclic recursion (hash chain circuit of the library test, 2^13 rows): chains of length 2 (quick) / 4 (thorough), every proof verified + check_cyclic_proof_verifier_data + verifier data present in the public inputs + counter/hash, every element of the verifier-data slice of the public inputs and of the verifier data altered, base proof claiming foreign verifier data, continuation of foreign / altered proofs",
        "obligations": len(thms), "discharged": len([t for t in thms if assumptions.get(t, "").startswith("Closed")]),
        "theorems": {t: assumptions.get(t, "not checked") for t in thms},
        "checker_cmd": "make -C coq Props/C20.vo && coqc Audit (Print Assumptions); harness c20",
        "trusted_base": ["Coq 8.16.1 kernel (component theorems)", "harness/src/c20.rs, harness/src/c06.rs", "tools/spec_c20.py"],
    }
    c.finish("translation_validation", coverage, [
        "component theorems (select = if, select-then-verify, verifier-data slice decoding) are supporting obligations; acceptance itself is compared per case",
        "dummy_circuit refuses zero-knowledge configurations and shapes with lookup tables (assertion); such shapes are listed under refused_shapes and not counted as failures",
        "the circuit cannot know its own verification key: a proof claiming foreign verifier data is provable and verifies; only check_cyclic_proof_verifier_data rejects it (checked)"])
