"""C03 - Accepted proofs are bound to each of their elements and to their circuit."""
import json, os, re, sys
from checklib import *

FORM = {"0": "plain", "1": "compressed", "2": "other-circuit", "3": "plain-keccak"}

def main():
    a = std_args().parse_args()
    c = Check("C03", a.tier, a.seed)
    if a.replay:
        r = json.load(open(a.replay)); c.seed, c.tier = r["seed"], r["tier"]
    ok_mk, log = c.make(["Model/Plonk.vo"] + props("C03")[2])
    thms = theorems_of(*props("C03")[0])
    assumptions = c.audit(props("C03")[1], thms) if ok_mk and thms else {}
    binary = c.build_harness("release")
    casefile = os.path.join(c.work, "cases.txt")
    n, dist, fails, samples, positions = 0, {}, [], [], set()
    if binary and c.run_harness(binary, "c03", casefile, timeout=6000):
        for line in open(casefile):
            if not line.startswith("c03 "):
                continue
            f = line.split()
            form, base, kind, path, outcome = f[1], f[2], f[3], f[4], f[6]
            n += 1
            cls = "panic" if outcome.startswith("panic@") else outcome
            key = "%s:%s:%s" % (FORM[form], "value" if kind.startswith("v") else kind, cls)
            dist[key] = dist.get(key, 0) + 1
            positions.add((form, base, path))
            expect_ok = kind in ("base", "indices-ignored")
            bad = None
            if expect_ok and outcome != "ok":
                bad = "valid input rejected (%s): %s" % (kind, outcome)
            elif not expect_ok and outcome == "ok":
                bad = "form=%s %s %s accepted" % (FORM[form], kind, re.sub(r"/\d+", "/N", path))
            elif outcome == "same":
                bad = "form=%s other circuit has the same digest" % FORM[form]
            if bad:
                fails.append({"form": FORM[form], "base": base, "kind": kind, "path": path, "outcome": outcome, "why": bad})
            elif len(samples) < 8 and n % 997 == 0:
                samples.append(line.strip()[:200])
    total, mism = (0, 0), []
    if ok_mk and binary:
        cli = c.build_model_cli()
        if cli:
            counts, mism, total = c.run_model(cli, "plonk", casefile)
            if mism:
                c.broken.append("Gallina PLONK verifier (Model/Plonk.v) disagrees with the implementation on %d tampered proofs, first: %s" % (total[1], mism[0][:200]))
    seen = set()
    for f in fails:
        if f["why"] in seen:
            continue
        seen.add(f["why"])
        c.violation(f, "verification fails for every altered proof", f["outcome"], f["why"])
    if a.replay:
        print("replay: %d accepted alterations" % len(fails)); sys.exit(1 if c.violations else 0)
    coverage = {
        "evaluations": n, "distinct_nontrivial": len(positions),
        "rule": "serde tree of accepted proofs: every number leaf (field element, digest limb, PoW witness, public input) x {+1, 0/1, random}; every array x {drop last, empty, duplicate last}; plain and compressed forms; other circuits' verifier data. quick tier samples leaves with a stride, thorough is exhaustive over positions; distinct = positions touched",
        "samples": samples or ["none"], "distribution": dist, "accepted_alterations": len(fails),
        "model_verifier_cases": total[0], "model_verifier_mismatches": total[1],
        "exhaustive": a.tier == "thorough",
        "obligations": len(thms), "discharged": len([t for t in thms if assumptions.get(t, "").startswith("Closed")]),
        "theorems": {t: assumptions.get(t, "not checked") for t in thms},
    }
    c.finish("fault_enumeration", coverage, [
        "panics of the compressed path count as non-acceptance here and are reported under C18",
        "'for every replacement value' is sampled with three values per position"])
