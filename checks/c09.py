"""C09 - STARK proofs are accepted exactly for traces that satisfy the constraints."""
import json, os, re, sys
from checklib import *
import spec_c09

PROPS = "Props/C09.v"

def scan(casefile, limit=40):
    """property oracle over the harness output"""
    n, dist, fails, samples, panics = 0, {}, [], [], {}
    nfam = set()
    for lineno, op, args, res in parse_case_lines(casefile):
        n += 1
        if op == "c09":
            fam, case = args[0], args[1]
            nfam.add(fam)
            cls = re.sub(r"(:v\d|:drop|:empty|:dup):.*", r"\1", case)
            cls = re.sub(r"\d+$", "", cls)
            key = "c09:" + cls
            detail = " ".join(res[1:])
            m = re.search(r"panic@\S+", detail)
            if m:
                panics[m.group(0)] = panics.get(m.group(0), 0) + 1
        else:
            key = op
        dist[key] = dist.get(key, 0) + 1
        try:
            msg = spec_c09.check(op, args, res)
        except Exception as ex:          # malformed line: the tie is broken, not the property
            msg = "oracle could not parse the case: %r" % ex
        if msg is not None:
            if keep_failure(fails, msg):
                fails.append({"line": lineno, "op": op, "args": args[:3] if op == "c09" else args[:12], "impl": res[:12], "why": msg,
                              "detail": " ".join(res[1:])[:300] if op == "c09" else ""})
        elif op == "c09" and len(samples) < 10 and n % 211 == 0:
            samples.append(("%s %s = %s" % (op, " ".join(args), " ".join(res)))[:220])
    return n, dist, fails, samples, panics, len(nfam)

def main():
    a = std_args().parse_args()
    c = Check("C09", a.tier, a.seed)
    if a.replay:
        r = json.load(open(a.replay)); c.seed, c.tier = r["seed"], r["tier"]
    ok_mk, log = c.make(props("C09")[2] + ["Model/C09Run.vo", "Model/StarkShape.vo", "Model/C10Run.vo"])   # Extract.v needs every run wrapper
    thms = theorems_of(*props("C09")[0])
    assumptions = c.audit(props("C09")[1], thms) if ok_mk and thms else {}
    binary = c.build_harness("release")
    casefile = os.path.join(c.work, "cases.txt")
    n, dist, fails, samples, panics, nfam = 0, {}, [], [], {}, 0
    counts, mism, total = {}, [], (0, 0)
    dbg = {}
    if binary and c.run_harness(binary, "c09", casefile, timeout=6000):
        n, dist, fails, samples, panics, nfam = scan(casefile)
        if ok_mk:
            cli = c.build_model_cli()
            if cli:
                # extract/main.ml prints the model's None as "fail": hand it the recorded panics in that spelling
                mfile = os.path.join(c.work, "cases_model.txt")
                with open(casefile) as f, open(mfile, "w") as g:
                    for line in f:
                        g.write(line[:-len("= panic\n")] + "= fail\n" if line.endswith("= panic\n") else line)
                counts, mism, total = c.run_model(cli, "c09", mfile)
                if mism:
                    c.broken.append("Model/Stark.v / Model/StarkShape.v disagrees with the implementation on %d cases, first: %s" % (total[1], mism[0][:300]))
    # debug build: the prover checks the constraints itself (check_constraints) and must refuse
    if a.tier == "thorough" or os.environ.get("VERIF_C09_DEBUG"):
        dbin = c.build_harness("debug")
        dfile = os.path.join(c.work, "cases_debug.txt")
        tier, c.tier = c.tier, "quick"
        ran = dbin and c.run_harness(dbin, "c09", dfile, timeout=12000)
        c.tier = tier
        if ran:
            dn, ddist, dfails, _, _, _ = scan(dfile)
            dbg = {"cases": dn, "failing": len(dfails)}
            fails += [dict(f, build="debug") for f in dfails]
    seen = set()
    for f in fails:
        if f["op"] == "c09":
            what = "c09 %s: %s" % (re.sub(r"/n\d+/", "/nN/", f["args"][0]), re.sub(r"\d+", "N", f["args"][1]))
        else:
            what = "implementation contradicts the specification of %s: %s" % (f["op"], f["why"])
        if what in seen:
            continue
        seen.add(what)
        c.violation(f, "accepted exactly for satisfying traces; every alteration rejected", f["why"] + " " + f.get("detail", ""), what)
    if a.replay:
        print("replay: %d failing cases" % len(fails)); sys.exit(1 if c.violations else 0)
    coverage = {
        "programs": nfam, "disagreements_checked": total[0], "samples": samples or ["none"],
        "obligations": len(thms), "discharged": len([t for t in thms if assumptions.get(t, "").startswith("Closed")]),
        "theorems": {t: assumptions.get(t, "not checked") for t in thms},
        "checker_cmd": "make -C coq Props/C09.vo Props/C09b.vo && coqc Audit (Print Assumptions); harness c09; model_cli c09",
        "trusted_base": ["Coq 8.16.1 kernel", "extraction (ExtrOcamlBasic, ExtrOcamlZBigInt), extract/main.ml",
                         "harness/src/c09.rs (STARK family defined through the public Stark trait)", "tools/spec_c09.py",
                         "starky verif_hooks: eval_l_0_and_l_last re-export, lenient quotient truncation"],
        "evaluations": n, "distinct_nontrivial": len(dist), "distribution": dist,
        "model_correspondence_cases": total[0], "model_mismatches": total[1], "model_ops": counts,
        "failing_cases": len(fails), "panics_counted_as_rejection": panics, "debug_build": dbg,
        "rule": "STARK family through the public Stark trait (1..8 columns, 0..3 public inputs, constraint degree 0..5, "
                "first/last/transition/always constraints as data), 6 StarkConfig choices, trace lengths 2^3..2^7; honest, "
                "single-cell corruptions at first/interior/before-last/last(wrap-around) rows with the expected verdict from "
                "the harness' own satisfaction check (replayed by the Python oracle and the Coq model), wrong public inputs, "
                "serde-tree tamper sweep of accepted proofs; a forger that never commits to the quotient polynomials "
                "(quotient_polys_cap = None, openings fitted after zeta) on violating and honest traces; presence / length "
                "variants of every optional part of the proof with the verdict of validate_proof_shape replayed by "
                "Model/StarkShape.v; correspondence of eval_l_0_and_l_last, ConstraintConsumer, "
                "Stark::eval_ext and the verifier's quotient identity with Model/Stark.v",
    }
    c.finish("translation_validation", coverage, [
        "soundness of FRI / Fiat-Shamir is not modelled: rejection of invalid traces is observed on the implementation, "
        "the Coq kernel covers the algebra (selectors, combination, quotient identity)",
        "a panic of the verifier on a tampered proof counts as rejection here and is reported under C18",
        "release build: the prover does not check constraints; debug build (thorough tier) panics in check_constraints"])
