"""C04 - Fiat-Shamir challenges depend on the whole statement and prior transcript."""
import json, os, re, sys
from checklib import *

def main():
    a = std_args().parse_args()
    c = Check("C04", a.tier, a.seed)
    if a.replay:
        r = json.load(open(a.replay)); c.seed, c.tier = r["seed"], r["tier"]
    ok_mk, log = c.make(["Model/Plonk.vo"] + props("C04")[2])
    thms = theorems_of(*props("C04")[0])
    assumptions = c.audit(props("C04")[1], thms) if ok_mk else {}
    binary = c.build_harness("release")
    casefile = os.path.join(c.work, "cases.txt")
    n, dist, fails, samples, info = 0, {}, [], [], []
    total, mism = (0, 0), []
    if binary and c.run_harness(binary, "c04", casefile, timeout=6000):
        for line in open(casefile):
            if line.startswith("c04info"):
                info.append(line.strip()); continue
            if not line.startswith("c04 "):
                continue
            body, _, desc = line.partition("#")
            f = body.split()
            base, comp, pos, ok = f[1], f[2], f[3], f[5]
            n += 1
            dist[comp] = dist.get(comp, 0) + 1
            if ok != "1":
                fails.append({"base": base, "component": comp, "position": pos, "detail": desc.strip()})
            elif len(samples) < 6 and n % 41 == 0:
                samples.append(line.strip())
        if ok_mk:
            cli = c.build_model_cli()
            if cli:
                counts, mism, total = c.run_model(cli, "plonk", casefile)
                if mism:
                    c.broken.append("challenges of Model/Plonk.v differ from ProofWithPublicInputs::get_challenges on %d proofs, first: %s" % (total[1], mism[0][:200]))
                if total[0] == 0:
                    c.broken.append("no challenge correspondence case was produced")
    seen = set()
    for f in fails:
        what = "a challenge drawn after %s did not change (or an earlier one did): %s" % (re.sub(r"_\d+$", "", f["component"]), f["detail"])
        if what in seen: continue
        seen.add(what)
        c.violation(f, "all challenges drawn after the component change, none before", f["detail"], what)
    if a.replay:
        print("replay: %d failing cases" % len(fails)); sys.exit(1 if c.violations else 0)
    coverage = {
        "obligations": len(thms), "discharged": len([t for t in thms if assumptions.get(t, "").startswith("Closed")]),
        "checker_cmd": "make -C coq Props/C04.vo && coqc Audit (Print Assumptions)",
        "trusted_base": ["Coq 8.16.1 kernel", "extraction (ExtrOcamlBasic, ExtrOcamlZBigInt), extract/main.ml",
                         "harness/src/c04.rs, harness/src/corpus.rs dump format", "Model/PoseidonSpec.v (permutation specification; C13 proves the implementation equal to it)"],
        "theorems": {t: assumptions.get(t, "not checked") for t in thms},
        "evaluations": n, "distinct_nontrivial": len(dist), "distribution": dist, "samples": samples or ["none"],
        "challenge_correspondence_proofs": total[0], "challenge_mismatches": total[1], "informational": info,
        "rule": "for every transcript component class (digest limbs, public inputs, each FRI/degree parameter, cap entries, openings of every kind, commit-phase caps, final-polynomial coefficients, PoW witness) a value is replaced and all challenges recomputed with the implementation; distinct = component classes",
    }
    c.finish("proof", coverage, [
        "the statement 'altering a message changes all later challenges' holds with overwhelming probability over the hash; it is checked empirically (sensitivity sweep), the theorems give order, injectivity of the encoding, independence from later messages and no-stale-output on the model",
        "STARK transcripts are covered under C09 / C11"])
