"""C10 - STARK lookups and cross-table lookups hold iff the looked-up values are present."""
import json, os, re, sys
from checklib import *
import spec_c10

PROPS = "Props/C10.v"

def scan(casefile, limit=40):
    n, dist, fails, samples, info, nfam = 0, {}, [], [], [], set()
    for lineno, op, args, res in parse_case_lines(casefile):
        n += 1
        if op == "c10":
            nfam.add(args[0])
            cls = re.sub(r"(:v\d|:drop|:empty|:dup):.*", r"\1", args[1])
            cls = re.sub(r"\d+", "N", cls)
            key = "c10:" + ("ctl:" if args[0].startswith("ctl") else "lookup:") + cls
        elif op == "c10info":
            info.append(("%s %s = %s" % (args[0], args[1], " ".join(res)))[:260]); key = op
        else:
            key = op
        dist[key] = dist.get(key, 0) + 1
        try:
            msg = spec_c10.check(op, args, res)
        except Exception as ex:
            msg = "oracle could not parse the case: %r" % ex
        if msg is not None:
            if keep_failure(fails, msg):
                fails.append({"line": lineno, "op": op, "args": args[:3] if op == "c10" else args[:12], "impl": res[:12],
                              "why": msg, "detail": " ".join(res[1:])[:300] if op == "c10" else ""})
        elif op == "c10" and len(samples) < 10 and n % 131 == 0:
            samples.append(("%s %s = %s" % (op, " ".join(args), " ".join(res)))[:220])
    return n, dist, fails, samples, info, len(nfam)

def main():
    a = std_args().parse_args()
    c = Check("C10", a.tier, a.seed)
    if a.replay:
        r = json.load(open(a.replay)); c.seed, c.tier = r["seed"], r["tier"]
    ok_mk, log = c.make([PROPS + "o", "Model/C10Run.vo", "Model/C09Run.vo"])   # Extract.v needs every run wrapper
    thms = theorems_of(PROPS)
    assumptions = c.audit("Props.C10", thms) if ok_mk and thms else {}
    binary = c.build_harness("release")
    casefile = os.path.join(c.work, "cases.txt")
    n, dist, fails, samples, info, nfam = 0, {}, [], [], [], 0
    counts, mism, total = {}, [], (0, 0)
    if binary and c.run_harness(binary, "c10", casefile, timeout=6000):
        n, dist, fails, samples, info, nfam = scan(casefile)
        if ok_mk:
            cli = c.build_model_cli()
            if cli:
                # extract/main.ml prints the model's None as "fail": hand it the recorded panics in that spelling
                mfile = os.path.join(c.work, "cases_model.txt")
                with open(casefile) as f, open(mfile, "w") as g:
                    for line in f:
                        g.write(line[:-len("= panic\n")] + "= fail\n" if line.endswith("= panic\n") else line)
                counts, mism, total = c.run_model(cli, "c10", mfile)
                if mism:
                    c.broken.append("Model/StarkLookup.v disagrees with the implementation on %d cases, first: %s" % (total[1], mism[0][:300]))
    seen = set()
    for f in fails:
        if f["op"] == "c10":
            fam = re.sub(r"/.*", "", f["args"][0])
            verdict = re.search(r"verify=(\S+)", f["detail"])
            what = "c10 %s: %s %s" % (fam, re.sub(r"\d+", "N", f["args"][1]), re.sub(r":.*", "", verdict.group(1)) if verdict else "")
        else:
            what = "implementation contradicts the specification of %s: %s" % (f["op"], f["why"])
        if what in seen:
            continue
        seen.add(what)
        c.violation(f, "accepted exactly when the looked-up values are present", f["why"] + " " + f.get("detail", ""), what)
    if a.replay:
        print("replay: %d failing cases" % len(fails)); sys.exit(1 if c.violations else 0)
    for i in info:
        c.notes.append(i)
    coverage = {
        "programs": nfam, "disagreements_checked": total[0], "samples": samples or ["none"],
        "obligations": len(thms), "discharged": len([t for t in thms if assumptions.get(t, "").startswith("Closed")]),
        "theorems": {t: assumptions.get(t, "not checked") for t in thms},
        "checker_cmd": "make -C coq Props/C10.vo && coqc Audit (Print Assumptions); harness c10; model_cli c10",
        "trusted_base": ["Coq 8.16.1 kernel", "extraction (ExtrOcamlBasic, ExtrOcamlZBigInt), extract/main.ml",
                         "harness/src/c10.rs, harness/src/c09.rs (STARK family through the public Stark trait; multi-table flow "
                         "through get_ctl_data / prove_with_commitment / CtlCheckVars::from_proof / verify_stark_proof_with_challenges / "
                         "verify_cross_table_lookups)", "tools/spec_c10.py",
                         "starky verif_hooks: auxiliary-column tamper knob, lookup_helper_columns / partial_sums / "
                         "eval_packed_lookups_generic / eval_cross_table_lookup_checks re-exports"],
        "evaluations": n, "distinct_nontrivial": len(dist), "distribution": dist,
        "model_correspondence_cases": total[0], "model_mismatches": total[1], "model_ops": counts,
        "failing_cases": len(fails), "informational": info,
        "rule": "lookups: 1..4 looking columns (plain, linear-combination, next-row), simple and product filters, constraint degree "
                "2 and 3, trace lengths 2^3..2^7; single-value corruptions of looking / looked / frequency / filter cells and of "
                "helper and Z columns (prover knob) with the expected verdict from the multiset predicate (replayed by the Python "
                "oracle); CTL systems of 2..4 tables in 8 topologies (repeated tables, chains, extra looking values, a table "
                "looking into itself) proved and verified through the public multi-table API; synthetic first-row sums; "
                "correspondence of the prover's lookup / CTL columns and of the lookup / CTL constraint evaluation with Model/StarkLookup.v",
    }
    c.finish("translation_validation", coverage, [
        "soundness of FRI / Fiat-Shamir and the logUp step from equal sums to equal multisets are not modelled: rejection of "
        "corrupted traces is observed on the implementation",
        "cross-table lookups need constraint_degree() >= 3 in every participating table (degree 2 recorded as information)",
        "malformed first-row openings handed to verify_cross_table_lookups are reported under C18 (c18ctl lines)"])
