"""C15 - Transforms and polynomial algebra agree with their definitions."""
import json, os, re, sys
from checklib import *
import spec_c15

THEOREMS = [
    # the theorems of coq/Props/C15.v, in file order
    "C15_bit_reverse_table_correct", "C15_reverse_bits_spec", "C15_bitrev_S", "C15_bitrev_lt",
    "C15_bitrev_involutive", "C15_reverse_index_bits_spec", "C15_reverse_index_bits_involutive",
    "C15_reverse_index_bits_not_pow2", "C15_reverse_index_bits_in_place_small_spec", "C15_in_place_ok",
    "C15_reverse_index_bits_in_place_not_pow2", "C15_reverse_in_place_chunked_spec",
    "C15_transpose_square_spec", "C15_fft_classic_spec", "C15_fft_classic_zero_tail", "C15_fft_spec",
    "C15_fft_with_options_spec", "C15_fft_zero_tail", "C15_root_table_irrelevant",
    "C15_computed_root_table_ok", "C15_root_table_wrong_length", "C15_ifft_fft", "C15_fft_ifft",
    "C15_ifft_with_options_spec", "C15_coset_fft_spec", "C15_coset_ifft_coset_fft", "C15_lde_spec",
    "C15_eval_horner", "C15_divide_by_linear_spec", "C15_mul_spec", "C15_trim_to_len_spec",
    "C15_trimmed_spec", "C15_div_rem_long_spec", "C15_div_rem_long_zero_divisor", "C15_inv_mod_xn_spec",
    "C15_div_rem_spec", "C15_eval_with_powers_spec", "C15_interpolate2_spec",
    "C15_interpolate_on_node_partial", "C15_barycentric_weights_spec", "C15_interpolate_off_node_spec",
]

def source_constants():
    """T1 tie for the constants copied into coq/Model/BitRev.v: re-parse them from the source"""
    lib = open(os.path.join(REPO, "util/src/lib.rs")).read()
    tr = open(os.path.join(REPO, "util/src/transpose_util.rs")).read()
    out, errs = {}, []
    m = re.search(r"const BIT_REVERSE_6BIT: &\[u8\] = &\[(.*?)\];", lib, re.S)
    if m:
        out["BIT_REVERSE_6BIT"] = [int(x.strip().replace("0o", ""), 8) for x in m.group(1).split(",") if x.strip()]
    else:
        errs.append("BIT_REVERSE_6BIT not found in util/src/lib.rs")
    for name, txt in (("BIG_T_SIZE", lib), ("SMALL_ARR_SIZE", lib), ("LB_BLOCK_SIZE", tr)):
        m = re.search(r"const %s: usize = ([^;]+);" % name, txt)
        if not m:
            errs.append(name + " not found")
            continue
        e = m.group(1).strip()
        mm = re.fullmatch(r"1 << (\d+)", e)
        out[name] = (1 << int(mm.group(1))) if mm else int(e)
    return out, errs

def model_constants():
    v = strip_coq_comments(open(os.path.join(COQ, "Model/BitRev.v")).read())
    out = {}
    m = re.search(r"Definition BIT_REVERSE_6BIT : list N :=\s*\[(.*?)\]\.", v, re.S)
    out["BIT_REVERSE_6BIT"] = [int(x) for x in m.group(1).replace("\n", " ").split(";")] if m else None
    for name in ("BIG_T_SIZE", "SMALL_ARR_SIZE", "LB_BLOCK_SIZE"):
        m = re.search(r"Definition %s : N := (\d+)\." % name, v)
        out[name] = int(m.group(1)) if m else None
    return out

def oracle_scan(casefile, limit=40, per_op=8):
    fails, n, dist, panics, nfail = [], 0, {}, 0, {}
    for lineno, op, args, res in parse_case_lines(casefile):
        n += 1
        dist[op] = dist.get(op, 0) + 1
        if res == ["panic"]:
            panics += 1
        msg = spec_c15.check(op, args, res)
        if msg is not None:
            nfail[op] = nfail.get(op, 0) + 1
        if msg is not None and keep_failure(fails, msg):
            fails.append({"line": lineno, "op": op, "args": args if len(args) <= 80 else args[:80] + ["..."],
                          "impl": res if len(res) <= 80 else res[:80] + ["..."], "why": msg})
    return n, fails, dist, panics

def main():
    a = std_args().parse_args()
    c = Check("C15", a.tier, a.seed)
    if a.replay:
        return replay(c, a.replay)
    ok_tr, errs = c.regenerate()
    # constants copied into the model still match the source
    src, cerrs = source_constants()
    mod = model_constants()
    for k in ("BIT_REVERSE_6BIT", "BIG_T_SIZE", "SMALL_ARR_SIZE", "LB_BLOCK_SIZE"):
        if k not in src or src.get(k) != mod.get(k):
            cerrs.append("%s: source %s, model %s" % (k, str(src.get(k))[:60], str(mod.get(k))[:60]))
    for e in cerrs:
        c.broken.append("constant tie: " + e)
    ok_mk, log = c.make(["Props/C15.vo", "Model/C15Run.vo"])
    assumptions = c.audit("Props.C15", THEOREMS) if ok_mk else {}
    binary = c.build_harness("release")
    counts, mism, total, nchecked, fails, dist, panics = {}, [], (0, 0), 0, [], {}, 0
    samples = []
    casefile = os.path.join(c.work, "cases.txt")
    if binary and c.run_harness(binary, "c15", casefile):
        nchecked, fails, dist, panics = oracle_scan(casefile)
        for f in fails:
            c.violation({"op": f["op"], "args": f["args"], "line": f["line"]},
                        "result satisfies the defining identity of " + f["op"], f["impl"],
                        "implementation contradicts the specification: %s: %s" % (f["op"], f["why"]))
        if ok_mk:
            cli = c.build_model_cli()
            if cli:
                # extract/main.ml prints the model's None as "fail": give it the panics in that spelling
                mfile = os.path.join(c.work, "cases_model.txt")
                with open(casefile) as f, open(mfile, "w") as g:
                    for line in f:
                        g.write(line[:-len("= panic\n")] + "= fail\n" if line.endswith("= panic\n") else line)
                counts, mism, total = c.run_model(cli, "c15", mfile)
                if mism:
                    c.broken.append("model/implementation correspondence: %d disagreements, first: %s"
                                    % (total[1], mism[0][:400]))
        with open(casefile) as f:
            for i, line in enumerate(f):
                if i % 211 == 0 and len(samples) < 16 and len(line) < 400:
                    samples.append(line.strip())
    # in-Coq subset (no extraction): small transforms and divisions through vm_compute
    incoq = None
    if ok_mk:
        exprs = ["run_fft [1; 2; 3; 4; 5; 6; 7; 8]", "run_ifft [1; 2; 3; 4]", "run_fft_r [1; 5; 6; 0; 0]",
                 "run_revidx_inplace [8192; 0;1;2;3;4;5;6;7;8;9;10;11;12;13;14;15;16;17;18;19;20;21;22;23;24;25;26;27;28;29;30;31]",
                 "run_polymul [2; 1; 2; 3; 4; 5]", "run_divremlong [4; 0; 1; 0; 1; 1; 0; 1]",
                 "run_divrem [4; 0; 1; 0; 1; 1; 0; 1]", "run_invmodxn [5; 1; 0; 18446744069414584320]", "run_invmodxn [4; 1; 0; 18446744069414584320]",
                 "run_fft [1; 2; 3]"]
        incoq = c.coq_eval_subset(["Model.C15Run"], exprs)
    nthm = len(THEOREMS)
    discharged = len([t for t in THEOREMS if assumptions.get(t, "").startswith("Closed")]) if ok_mk else 0
    coverage = {
        "obligations": nthm, "discharged": discharged,
        "checker_cmd": "tools/rs2v.py /repo coq/Gen && make -C coq Props/C15.vo && coqc Audit (Print Assumptions)",
        "trusted_base": ["Coq 8.16.1 kernel + vm_compute",
                         "ExtrOcamlBasic + ExtrOcamlZBigInt, OCaml 4.13.1, zarith, extract/main.ml",
                         "harness/src/c15.rs, tools/spec_c15.py (Python bigint oracle: direct evaluation, schoolbook algebra)",
                         "hand-written model coq/Model/{BitRev,FFT,PolyOps}.v tied to the Rust code by correspondence "
                         "(constants re-parsed from the source by checks/c15.py)"],
        "theorems": {t: assumptions.get(t, "not checked") for t in THEOREMS},
        "translator_ok": ok_tr, "translator_errors": errs, "constants_ok": not cerrs,
        "correspondence_cases": total[0], "correspondence_mismatches": total[1],
        "oracle_checked": nchecked, "impl_panics_in_cases": panics,
        "distribution": dist, "samples": samples, "in_coq_subset": incoq,
        "evaluations": nchecked, "distinct_nontrivial": len(dist),
        "rule": "sizes 2^0..2^11 (quick) / 2^14 (thorough) for transforms and bit reversal, element sizes 1 B..16 KiB "
                "on both sides of SMALL_ARR_SIZE and BIG_T_SIZE, zero-tail factors 0..lg n+2, supplied root tables "
                "(right, larger, smaller, longer rows, short rows, arbitrary contents), shifts incl. 0 and 1, "
                "degenerate polynomial operands; distinct_nontrivial counts distinct operations exercised",
    }
    c.finish("proof", coverage, [
        "packed (AVX2/AVX-512) butterflies are modelled as the scalar butterflies; SIMD builds are compared only by "
        "running the harness with the target features on",
        "the aarch64 variant of reverse_index_bits_in_place_small is not modelled",
        "release build: debug_assert!s of PolynomialValues::new / eval_with_powers are not part of the model",
        "div_rem / inv_mod_xn: the defects found on the code before /repo commit 119d559 are repaired; the model mirrors "
        "the repaired code",
        "interpolant / ZeroPolyOnCoset / get_unique_coset_shifts: correspondence and oracle only (interpolate, "
        "barycentric_weights, interpolate2 are proved)"])

def replay(c, path):
    r = json.load(open(path))
    case = r["case"]
    binary = c.build_harness("release")
    casefile = os.path.join(c.work, "replay_cases.txt")
    c.seed, c.tier = r["seed"], r["tier"]
    if not binary or not c.run_harness(binary, "c15", casefile):
        print("replay: harness failed"); sys.exit(2)
    for lineno, op, args, res in parse_case_lines(casefile):
        if op == case.get("op") and (lineno == case.get("line") or args == case.get("args")):
            msg = spec_c15.check(op, args, res)
            print("replay %s %s -> %s : %s" % (op, " ".join(args[:40]), " ".join(res[:40]), msg or "ok"))
            sys.exit(1 if msg else 0)
    print("replay: case not regenerated"); sys.exit(2)
