"""C08 - Table lookups are provable exactly for pairs contained in the table."""
import json, os, re, sys
from checklib import *
import spec_c08

def scan(casefile):
    st = {"pos": 0, "neg": 0, "lkc": 0, "replay": 0, "dist": {}, "outcomes": {}, "samples": [], "cases": set(), "shapes": []}
    fails = []
    for lineno, op, args, res in parse_case_lines(casefile):
        msg = spec_c08.check(op, args, res)
        if op == "lkc":
            st["lkc"] += 1
            if msg:
                fails.append({"op": op, "line": lineno, "why": msg, "what": msg})
            continue
        if op == "c08replay":
            st["replay"] += 1
            if msg:
                fails.append({"op": op, "config": args[0], "why": msg, "detail": " ".join(res[2:])[:300],
                              "what": "accepted proof for a pair outside the table: kind=minimal-replay strategy=sldc-shift"})
            continue
        if op != "c08":
            continue
        case, cfg, kind, strat = args[0], args[1], args[2], args[3]
        st["cases"].add((case, cfg))
        key = "%s|%s" % (kind, strat)
        st["dist"][key] = st["dist"].get(key, 0) + 1
        if kind == "positive":
            st["pos"] += 1
            if strat == "honest" and len(st["shapes"]) < 60:
                st["shapes"].append(" ".join(res[2:5]))
        else:
            st["neg"] += 1
            out = (spec_c08.field(res, "outcome") or "?").split(":")[0]
            st["outcomes"][out] = st["outcomes"].get(out, 0) + 1
        if msg:
            what = ("honest lookup circuit fails: %s" % strat) if kind == "positive" else \
                   "accepted proof for a pair outside the table: kind=%s strategy=%s" % (kind, strat)
            fails.append({"op": op, "case": case, "config": cfg, "kind": kind, "strategy": strat, "why": msg,
                          "detail": " ".join(res[2:])[:300], "what": what})
        elif len(st["samples"]) < 8 and (st["pos"] + st["neg"]) % 41 == 0:
            st["samples"].append(("c08 " + " ".join(args) + " = " + " ".join(res))[:220])
    return st, fails

def main():
    a = std_args().parse_args()
    c = Check("C08", a.tier, a.seed)
    if a.replay:
        r = json.load(open(a.replay)); c.seed, c.tier = r["seed"], r["tier"]
    ok_mk, log = c.make(["Props/C08.vo", "Model/C08Run.vo", "Model/C02Run.vo"])
    thms = theorems_of("Props/C08.v")
    assumptions = c.audit("Props.C08", thms) if ok_mk and thms else {}
    binary = c.build_harness("release")
    casefile = os.path.join(c.work, "cases.txt")
    st, fails, total, mism, counts = None, [], (0, 0), [], {}
    if binary and c.run_harness(binary, "c08", casefile, timeout=20000):
        st, fails = scan(casefile)
        if ok_mk:
            cli = c.build_model_cli()
            if cli:
                counts, mism, total = c.run_model(cli, "c08", casefile)
                if mism:
                    c.broken.append("Model/Lookup.v (lookup_constraints / compute_lookup_polys) disagrees with the implementation on %d cases, first: %s"
                                    % (total[1], mism[0][:300]))
    if a.replay:
        want = json.load(open(a.replay))["case"]
        hit = [f for f in fails if all(f.get(k) == want.get(k) for k in ("op", "case", "config", "kind", "strategy"))]
        print("replay: %d matching failing cases (%d failing in total)" % (len(hit), len(fails)))
        for f in hit[:3]:
            print("  ", f["why"], "|", f.get("detail", ""))
        sys.exit(1 if hit else 0)
    seen = set()
    for f in fails:
        if f["what"] in seen:
            continue
        seen.add(f["what"])
        c.violation(f, "prove+verify succeed exactly for pairs contained in the table", f.get("detail", f["why"]), f["what"])
    st = st or {"pos": 0, "neg": 0, "lkc": 0, "replay": 0, "dist": {}, "outcomes": {}, "samples": [], "cases": set(), "shapes": []}
    coverage = {
        "programs": len(st["cases"]), "disagreements_checked": st["pos"] + st["neg"] + st["replay"], "samples": st["samples"] or ["none"],
        "positives": st["pos"], "negatives": st["neg"], "accepted_negatives": len([f for f in fails if f["op"] != "lkc" and f.get("kind") != "positive"]),
        "negative_outcomes": st["outcomes"], "distribution": st["dist"], "table_and_lookup_shapes": st["shapes"],
        "evaluations": st["pos"] + st["neg"] + st["replay"], "distinct_nontrivial": len(st["dist"]),
        "model_correspondence_cases": total[0], "model_correspondence_mismatches": total[1], "model_correspondence_by_op": counts,
        "lookup_constraint_oracle_cases": st["lkc"],
        "obligations": len(thms), "discharged": len([t for t in thms if assumptions.get(t, "").startswith("Closed")]),
        "theorems": {t: assumptions.get(t, "not checked") for t in thms},
        "rule": "1..4 tables of 1..600 arbitrary u16 pairs (duplicate outputs, repeated identical entries), 1..3.5 rows of lookups per table "
                "(slot-count multiples +-1, heavy repetition), configurations with 40/26, 33/22, 50/33 and 15/10 slots and 1, 5, 6, 7, 8 partial "
                "running-sum polynomials; negatives = altered output (variable, cell, preset), input outside the table, pair of another table, "
                "multiplicity, table cell, table+lookup changed together, padding slot x strategies ignore-checks, sldc-shift, z-zero, z-first, "
                "quotient-perturb, lenient-trim, pow-override; distinct = (kind, strategy) pairs",
    }
    c.finish("translation_validation", coverage, [
        "the end-to-end statement is decided on generated cases by the implementation's prover and verifier",
        "kernel theorems (transition algebra, telescoping, counting identity, completeness of compute_lookup_polys for any number of tables, "
        "the RE root bound) are proved on Model/Lookup.v, which is tied to check_lookup_constraints (lkc) and compute_lookup_polys (clp) by "
        "correspondence; the soundness direction is proved up to the balance equation at one challenge and the root-bound step over alpha "
        "(C08_lookup_sound_partial, C08_balance_forces_membership, C08_lookup_sound_membership_partial); its composition with the random "
        "challenges a, b, delta and with Fiat-Shamir / FRI is not formalised",
        "the sldc-shift strategy (running sum started from a non-zero value) is the regression test of the defect fixed in repo commit bfbd0f1",
        "tables are functions (distinct inputs); a table listing one input with two different outputs is outside the property"])
