"""C18 - Verifiers and proof decoders fail cleanly on malformed input."""
import json, os, re, sys
from checklib import *
import c18stark

ENTRY = {"0": "plain-verify", "1": "compressed-verify", "2": "plain-decode", "3": "compressed-decode"}

def classify(entry, mid, outcome, desc):
    """None if the outcome satisfies the property, else a description of the failure"""
    unmodified = (mid == "0")
    expect_ok = unmodified or "[expect ok]" in desc
    if outcome.startswith("panic@") or outcome.startswith("decode-panic@"):
        return "outcome=%s" % outcome
    if outcome == "accepted-other":
        return "outcome=accepted-other (a decoded value different from the valid proof was accepted)"
    if outcome == "ok":
        if expect_ok or entry in ("2", "3"):
            return None          # decoders: ok means the decoded value equals the valid proof
        tag = re.sub(r"[^A-Za-z0-9]+", "_", desc).strip("_")
        return "outcome=accepted-malformed %s" % tag
    if outcome == "err":
        return "outcome=err on a valid input" if expect_ok else None
    return "outcome=%s (unexpected)" % outcome

def scan(c, casefile):
    n, dist, fails, samples = 0, {}, [], []
    for line in open(casefile):
        if not line.startswith("c18 "):
            continue
        body, _, desc = line.partition("#")
        f = body.split()
        entry, base, mid, outcome = f[1], f[2], f[3], f[5]
        n += 1
        key = ENTRY[entry] + ":" + (outcome if not outcome.startswith(("panic", "decode-panic")) else "panic")
        dist[key] = dist.get(key, 0) + 1
        why = classify(entry, mid, outcome, desc.strip())
        if why:
            fails.append({"entry": ENTRY[entry], "base": base, "mutation": mid, "desc": desc.strip(), "why": why})
        elif len(samples) < 8 and n % 97 == 0:
            samples.append(line.strip()[:200])
    return n, dist, fails, samples

def main():
    a = std_args().parse_args()
    c = Check("C18", a.tier, a.seed)
    if a.replay:
        r = json.load(open(a.replay)); c.seed, c.tier = r["seed"], r["tier"]
    ok_mk, log = c.make([] + props("C18")[2])
    thms = theorems_of(*props("C18")[0])
    assumptions = c.audit(props("C18")[1], thms) if ok_mk and thms else {}
    casefile = os.path.join(c.work, "cases.txt")
    n, dist, fails, samples = 0, {}, [], []
    dn = 0
    for profile in (["release", "debug"] if (a.tier == "thorough" or os.environ.get("VERIF_C18_DEBUG")) else ["release"]):
        binary = c.build_harness(profile)
        nb = len(c.broken)
        ran = binary and c.run_harness(binary, "c18", casefile, timeout=6000)
        if binary and not ran and os.path.exists(casefile):
            # the harness died: the last announced case that has no result line killed the process
            last_try, done = None, set()
            for line in open(casefile, errors="replace"):
                f = line.split()
                if line.startswith("c18try ") and len(f) > 3:
                    last_try = (f[1], f[2], f[3], line.partition("#")[2].strip())
                elif line.startswith("c18 ") and len(f) > 3:
                    done.add((f[1], f[2], f[3]))
            if last_try and last_try[:3] not in done:
                del c.broken[nb:]
                case = {"entry": ENTRY.get(last_try[0], last_try[0]), "base": last_try[1], "mutation": last_try[2], "desc": last_try[3], "build": profile}
                c.violation(case, "Err for malformed input", "process aborted (allocation failure / abort)",
                            "entry=%s outcome=abort (the decoder killed the process: unbounded allocation) %s" % (case["entry"], re.sub(r"\d+", "N", last_try[3])))
        if ran:
            n1, d1, f1, s1 = scan(c, casefile)
            n += n1; fails += [dict(f, build=profile) for f in f1]; samples += s1
            for k, v in d1.items():
                dist[k] = dist.get(k, 0) + v
        # STARK entry point: verify_stark_proof on structured malformations (harness/src/c09.rs)
        sfile = os.path.join(c.work, "cases_stark.txt")
        if binary and c.run_harness(binary, "c18stark", sfile, timeout=6000):
            n2, d2, f2 = c18stark.scan(sfile)
            n += n2; fails += [dict(f, build=profile) for f in f2]
            for k, v in d2.items():
                dist[k] = dist.get(k, 0) + v
        # multi-table entry (CtlCheckVars::from_proof, get_challenges, verify_stark_proof_with_challenges,
        # verify_cross_table_lookups composed as a caller has to): the c18ctl lines of harness/src/c10.rs
        cfile = os.path.join(c.work, "cases_ctl.txt")
        if binary and c.run_harness(binary, "c18ctl", cfile, timeout=6000):
            n3, d3, f3 = c18stark.scan(cfile)
            n += n3; fails += [dict(f, build=profile) for f in f3]
            for k, v in d3.items():
                dist[k] = dist.get(k, 0) + v
            if n3 == 0:
                c.broken.append("harness produced no c18ctl lines")
    reported = set()
    for f in fails:
        what = "entry=%s %s" % (f["entry"], f["why"])
        key = (f["entry"], f["why"])
        if key in reported:
            continue
        reported.add(key)
        c.violation(f, "Err for malformed input, Ok only for the valid proof, never a panic", f["why"], what)
    if a.replay:
        print("replay: %d failing cases" % len(fails)); sys.exit(1 if c.violations else 0)
    coverage = {
        "evaluations": n, "distinct_nontrivial": len(dist),
        "rule": "structured malformations of every vector of plain and compressed proofs (empty, drop last, duplicate last, one more, caps of length 3/6), map edits, byte-level truncations / flips / 0xff runs / appended / random strings; distinct = (entry point, outcome class)",
        "samples": samples or ["none"], "distribution": dist,
        "failing_cases": len(fails), "distinct_failure_sites": len(reported),
        "obligations": len(thms), "discharged": len([t for t in thms if assumptions.get(t, "").startswith("Closed")]),
        "theorems": {t: assumptions.get(t, "not checked") for t in thms},
    }
    c.finish("fault_enumeration", coverage, [
        "outcome classes observed under catch_unwind in a release build (debug build in the thorough tier)",
        "allocation behaviour is not measured; proof decoders take all lengths from the circuit data, not from the input"])
