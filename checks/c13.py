"""C13 - Optimised hashing and the transcript sponge equal their specification."""
import json, os, sys
from checklib import *
import spec_c13
import spec_c13k
KOPS = ('kperm', 'khash', 'khashornoop', 'ktwo', 'kdigest_to_vec', 'kchallenger')

# filled from coq/Props/C13.v (every Theorem there)
THEOREMS = [
    "C13_poseidon_fast_eq_spec", "C13_partial_rounds_fast_eq_naive", "C13_poseidon_naive_eq_spec",
    "C13_constants_canonical", "C13_mds_freq_correct", "C13_mds_layer_impl_correct", "C13_mds_layer_generic_correct",
    "C13_poseidon_impl_eq_spec",
    "C13_shared_spec_is_poseidon_fp", "C13_poseidon_impl_eq_shared_spec", "C13_shared_sponge_is_sponge",
    "C13_hash_no_pad_is_overwrite_sponge", "C13_compress_is_sponge_on_8",
    "C13_recursive_challenger_eq_native", "C13_observe_chunking_irrelevant", "C13_no_stale_output",
    "C13_challenger_never_panics", "C13_challenger_state_is_sponge",
]


def build_model_cli_big(c, timeout=1800):
    """as Check.build_model_cli, with an unlimited stack for ocamlopt: the Poseidon tables make the
    module initialiser of model.ml long enough to overflow the default 8 MB stack of the compiler"""
    with Lock("coq"):
        rc, out, _ = run("ulimit -s unlimited 2>/dev/null; coqc -Q ../coq Verif Extract.v && "
                         "ocamlfind ocamlopt -package zarith -linkpkg -O2 -w -a model.mli model.ml main.ml "
                         "-o model_cli", cwd=EXTRACT, timeout=timeout)
    if rc != 0:
        c.broken.append("extraction / model_cli build failed: " + tail(out, 8))
        return None
    return os.path.join(EXTRACT, "model_cli")


def oracle_scan(casefile, limit=20):
    fails, n, dist = [], 0, {}
    for lineno, op, args, res in parse_case_lines(casefile):
        n += 1
        dist[op] = dist.get(op, 0) + 1
        msg = (spec_c13k if op in KOPS else spec_c13).check(op, args, res)
        if msg is not None and keep_failure(fails, msg):
            fails.append({"line": lineno, "op": op, "args": args, "impl": res, "why": msg})
    return n, fails, dist


def main():
    a = std_args().parse_args()
    c = Check("C13", a.tier, a.seed)
    if a.replay:
        return replay(c, a.replay)
    ok_tr, errs = c.regenerate()
    ok_mk, log = c.make(["Props/C13.vo", "Model/C13Run.vo"])
    assumptions = c.audit("Props.C13", THEOREMS) if ok_mk else {}
    binary = c.build_harness("release")
    counts, mism, total, nchecked, fails, dist = {}, [], (0, 0), 0, [], {}
    samples = []
    casefile = os.path.join(c.work, "cases.txt")
    if binary and c.run_harness(binary, "c13", casefile):
        nchecked, fails, dist = oracle_scan(casefile)
        for f in fails:
            c.violation(f, "output equal to the textbook Poseidon / overwrite-mode sponge specification", f["impl"],
                        "implementation contradicts the hashing specification: %s %s" % (f["op"], f["why"]))
        # the model must be runnable even if a proof broke: build Model/C13Run.vo on its own
        ok_run = ok_mk or c.make(["Model/C13Run.vo"])[0]
        if ok_run:
            cli = build_model_cli_big(c)
            if cli:
                counts, mism, total = c.run_model(cli, "c13", casefile)
                if mism:
                    c.broken.append("model/implementation correspondence: %d disagreements, first: %s"
                                    % (total[1], mism[0]))
        with open(casefile) as f:
            for i, line in enumerate(f):
                if i % 401 == 0 and len(samples) < 12:
                    samples.append(line.strip()[:400])
    # debug build (overflow checks and debug_assert on) in the thorough tier: the checked monad's
    # None corresponds to a debug panic
    dbg_n = 0
    if a.tier == "thorough" or os.environ.get("VERIF_C13_DEBUG") == "1":
        dbin = c.build_harness("debug")
        if dbin:
            dfile = os.path.join(c.work, "cases_debug.txt")
            saved = c.tier
            c.tier = "quick"
            if c.run_harness(dbin, "c13", dfile):
                dbg_n, dfails, _ = oracle_scan(dfile)
                for f in dfails:
                    c.violation(f, "no panic, output equal to the specification", f["impl"],
                                "debug build: %s %s" % (f["op"], f["why"]))
            c.tier = saved
    # in-Coq subset (no extraction): the published all-zero test vector through both levels and a
    # short challenger run, by vm_compute
    incoq = None
    if ok_mk:
        exprs = ["run_poseidon (repeat 0 12)", "run_poseidon_spec (repeat 0 12)",
                 "run_challenger [0;3;1;2;3;1;2;0;9;1;2;3;4;5;6;7;8;9;1;9]",
                 "run_rchallenger [0;3;1;2;3;1;2;0;9;1;2;3;4;5;6;7;8;9;1;9]"]
        incoq = c.coq_eval_subset(["Model.C13Run"], exprs)
        if incoq is not None:
            want0 = "Some [4330397376401421145;"
            if len(incoq) != 4 or not incoq[0].startswith(want0) or incoq[0] != incoq[1] or incoq[2] != incoq[3]:
                c.broken.append("in-Coq subset disagrees with the published test vector / native-recursive equality")
            else:
                # the same expressions through the oracle
                ch = [str(x) for x in spec_c13.run_challenger([0, 3, 1, 2, 3, 1, 2, 0, 9, 1, 2, 3, 4, 5, 6, 7, 8, 9, 1, 9])]
                got = [x for x in incoq[2].replace("Some", "").replace("[", "").replace("]", "").replace(";", " ").split()]
                if got != ch:
                    c.broken.append("in-Coq challenger run differs from the oracle")
    nthm = len(THEOREMS)
    discharged = len([t for t in THEOREMS if assumptions.get(t, "").startswith("Closed")]) if ok_mk else 0
    coverage = {
        "obligations": nthm, "discharged": discharged,
        "checker_cmd": "tools/rs2v.py /repo coq/Gen && make -C coq Props/C13.vo && coqc Audit (Print Assumptions)",
        "trusted_base": ["Coq 8.16.1 kernel + vm_compute",
                         "tools/rs2v.py (tables; Rust subset -> Gallina checked monad for gl_*, add_u160_u128, "
                         "reduce_u160, mds_multiply_freq)",
                         "ExtrOcamlBasic + ExtrOcamlZBigInt, OCaml 4.13.1, zarith, extract/main.ml",
                         "harness/src/c13.rs, tools/spec_c13.py (Python textbook Poseidon + sponge oracle)"],
        "theorems": {t: assumptions.get(t, "not checked") for t in THEOREMS},
        "translator_ok": ok_tr, "translator_errors": errs,
        "correspondence_cases": total[0], "correspondence_mismatches": total[1],
        "oracle_checked": nchecked, "debug_build_cases": dbg_n,
        "distribution": dist, "samples": samples, "in_coq_subset": incoq,
        "evaluations": nchecked, "distinct_nontrivial": len(dist),
        "polynomial_identity": {"degree_bound": "7^30 per output coordinate (too large to be useful for the full "
                                "permutation); mds_layer and each affine layer: degree 1",
                                "random_points": dist.get("poseidon", 0)},
        "rule": "boundary / structured states (all-equal boundary representations, single non-canonical limbs, "
                "saturated 32-bit halves) + mixed + uniform random states from VERIF_SEED; message lengths 0..40; "
                "random observe/squeeze interleavings; distinct_nontrivial counts distinct operations exercised",
    }
    c.finish("proof", coverage, [
        "NEON / AVX2 Poseidon files are not compiled at this commit and are outside this check",
        "the hand-written glue of Model/PoseidonImplModel.v (loops, indices) is tied by correspondence; "
        "the arithmetic primitives it calls are translated",
        "RecursiveChallenger is compared through the witness of a circuit built per case (small sample)",
        "Keccak configuration is not covered"])


def replay(c, path):
    r = json.load(open(path))
    case = r["case"]
    if "op" not in case:
        print("replay: no concrete input recorded (broken obligation): %s" % case)
        sys.exit(1)
    binary = c.build_harness("release")
    casefile = os.path.join(c.work, "replay_cases.txt")
    c.seed, c.tier = r["seed"], r["tier"]
    if not binary or not c.run_harness(binary, "c13", casefile):
        print("replay: harness failed"); sys.exit(2)
    for lineno, op, args, res in parse_case_lines(casefile):
        if op == case.get("op") and args == case.get("args"):
            msg = spec_c13.check(op, args, res)
            print("replay %s %s -> %s : %s" % (op, " ".join(args)[:200], " ".join(res)[:200], msg or "ok"))
            sys.exit(1 if msg else 0)
    print("replay: case not regenerated"); sys.exit(2)
