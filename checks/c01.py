"""C01 - Honest proofs of satisfiable circuits verify and carry the right outputs."""
import json, os, sys
from checklib import *

THEOREMS = []   # kernel theorems are added in Props/C01.v as they are proved

def main():
    a = std_args().parse_args()
    c = Check("C01", a.tier, a.seed)
    ok_tr, errs = c.regenerate()
    ok_mk, log = c.make(["Model/Prog.vo"] + props("C01")[2])
    thms = theorems_of(*props("C01")[0])
    assumptions = c.audit(props("C01")[1], thms) if ok_mk else {}
    binary = c.build_harness("release")
    casefile = os.path.join(c.work, "cases.txt")
    verdicts, fails, samples, dist = 0, [], [], {}
    counts, mism, total = {}, [], (0, 0)
    if a.replay:
        r = json.load(open(a.replay)); c.seed, c.tier = r["seed"], r["tier"]
    if binary and c.run_harness(binary, "c01", casefile, timeout=6000):
        for line in open(casefile):
            if line.startswith("c01verdict"):
                verdicts += 1
                lhs, rhs = line.split("=", 1)
                f = lhs.split()
                key = "cfg%s_kinds%s" % (f[1], f[3])
                dist[key] = dist.get(key, 0) + 1
                if rhs.split()[0] != "1":
                    fails.append({"config": f[1], "program": f[2], "kinds": f[3], "ops": f[4], "line": line.strip()[:300]})
                elif len(samples) < 5:
                    samples.append(line.strip())
        for f in fails[:10]:
            c.violation(f, "prove succeeds, verify accepts, public inputs = direct evaluation", f["line"],
                        "honest proof of a satisfiable circuit failed (config %s, program %s)" % (f["config"], f["program"]))
        if ok_mk:
            cli = c.build_model_cli()
            if cli:
                counts, mism, total = c.run_model(cli, "c01", casefile)
                if mism:
                    c.broken.append("Gallina eval_prog disagrees with the public inputs of %d proofs, first: %s"
                                    % (total[1], mism[0][:300]))
    if a.replay:
        print("replay: %d failing verdicts" % len(fails)); sys.exit(1 if fails else 0)
    coverage = {
        "programs": verdicts, "disagreements_checked": total[0], "samples": samples or ["none"],
        "model_mismatches": total[1], "distribution": dist,
        "obligations": len(thms), "discharged": len([t for t in thms if assumptions.get(t, "").startswith("Closed")]),
        "theorems": {t: assumptions.get(t, "not checked") for t in thms},
        "evaluations": verdicts, "distinct_nontrivial": len(dist),
        "rule": "random satisfiable DSL programs (gadget families rotate over configurations); distinct = (config, family) pairs",
    }
    c.finish("translation_validation", coverage, [
        "end-to-end completeness is decided by agreement of prove/verify with the Gallina evaluator eval_prog on generated programs, not by a theorem about the builder",
        "kernel theorems listed under theorems are proved on the model"])
