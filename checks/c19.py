"""C19 - Circuit keys and verdicts do not depend on schedule, hash seeds or SIMD build.

The property is decided by running the SAME harness sub-command (`verif_harness c19`, see
harness/src/c19.rs) under different conditions, in separate processes:
  quick:    release build, RAYON_NUM_THREADS in {1, 3, 16}, twice each
  thorough: additionally a debug build (overflow checks, debug_assert on), builds with
            RUSTFLAGS=-C target-feature=+avx2 and +avx512{f,bw,cd,dq,vl} (packed field types of
            field/src/packable.rs), and a build under another CONST_RANDOM_SEED (the compile-time
            keys of ahash, i.e. the iteration order of every hashbrown map / set in plonky2), each
            in its own target directory under harness/, removed after use.
Every `digest <artefact> = ..` line must be identical in all conditions, and every proof written
under one condition must be accepted by the verifier running under every other condition.
Output (work/C19/compare.txt): one line per comparison `c19 <artefact> <condA> <condB> = <1|0>`.
Not compared (`info` lines): the PoW witness and what depends on it (rayon `find_any` returns any
valid witness: Props/C19.v grinding_any_witness_ok) and the proof bytes (OsRng: zero-knowledge
blinding, and `randomize_unused_pi_wires` in EVERY circuit)."""
import json, os, shutil, sys
from checklib import *

AVX2 = "+avx2"
AVX512 = "+avx512f,+avx512bw,+avx512cd,+avx512dq,+avx512vl"
OTHER_SEED = "c19-other-seed-7791"


def cpu_flags():
    try:
        for line in open("/proc/cpuinfo"):
            if line.startswith("flags"):
                return set(line.split(":", 1)[1].split())
    except OSError:
        pass
    return set()


def build_variant(c, name, extra_env, profile="release", timeout=3000):
    """build the harness into harness/target_c19_<name>; returns (binary copy in work/, target dir)"""
    tdir = os.path.join(HARNESS, "target_c19_" + name)
    env = dict(ENV)
    env.update(extra_env)
    env["CARGO_TARGET_DIR"] = tdir
    with Lock("cargo"):
        for f in ("Cargo.lock", "rust-toolchain"):
            src, dst = os.path.join(REPO, f), os.path.join(HARNESS, f)
            if os.path.exists(src) and (not os.path.exists(dst) or open(src, "rb").read() != open(dst, "rb").read()):
                open(dst, "wb").write(open(src, "rb").read())
        cmd = ["cargo", "build", "--offline"] + (["--release"] if profile == "release" else [])
        rc, out, dt = run(cmd, cwd=HARNESS, timeout=timeout, env=env)
    if rc != 0:
        c.notes.append("variant build %s failed: %s" % (name, tail(out, 6)))
        shutil.rmtree(tdir, ignore_errors=True)
        return None
    built = os.path.join(tdir, profile if profile == "release" else "debug", "verif_harness")
    keep = os.path.join(c.work, "verif_harness_" + name)
    shutil.copy2(built, keep)
    shutil.rmtree(tdir, ignore_errors=True)      # disk: ~300 MB per target directory
    return keep


def parse(path):
    dig, info, order = {}, {}, []
    for line in open(path):
        f = line.split()
        if len(f) >= 4 and f[0] == "digest":
            dig[f[1]] = " ".join(f[3:])
            order.append(f[1])
        elif len(f) >= 4 and f[0] == "info":
            info[f[1]] = " ".join(f[3:])
    return dig, info, order


def main():
    a = std_args().parse_args()
    c = Check("C19", a.tier, a.seed)
    if a.replay:
        r = json.load(open(a.replay)); c.seed, c.tier = r["seed"], r["tier"]
    ok_mk, log = c.make(["Props/C19.vo"])
    thms = theorems_of("Props/C19.v")
    assumptions = c.audit("Props.C19", thms) if ok_mk else {}
    thorough = c.tier == "thorough"
    # ------------------------------------------------------------------ conditions
    conds = []          # (name, binary, env, description of the command line)
    binary = c.build_harness("release")
    if binary:
        for t in (1, 3, 16):
            for rep in "ab":
                conds.append(("release-t%d%s" % (t, rep), binary, {"RAYON_NUM_THREADS": str(t)}))
    skipped = []
    if True:
        # quick: the other-hash-seed build (a circuit whose key depends on HashMap iteration order is invisible
        # inside one binary) and the AVX2 build (another packed field type); thorough: also debug and AVX-512 builds
        wanted = os.environ.get("VERIF_C19_VARIANTS", "debug,avx2,avx512,seed" if thorough else "seed,avx2").split(",")
        flags = cpu_flags()
        if "debug" in wanted:
            dbg = c.build_harness("debug")
            if dbg:
                conds.append(("debug-t16", dbg, {"RAYON_NUM_THREADS": "16"}))
                conds.append(("debug-t1", dbg, {"RAYON_NUM_THREADS": "1"}))
        if "avx2" in wanted:
            if "avx2" in flags:
                b = build_variant(c, "avx2", {"RUSTFLAGS": "-C target-feature=" + AVX2})
                if b:
                    conds.append(("avx2-t16", b, {"RAYON_NUM_THREADS": "16"}))
                    conds.append(("avx2-t1", b, {"RAYON_NUM_THREADS": "1"}))
            else:
                skipped.append("avx2 (cpu)")
        if "avx512" in wanted:
            if all(x in flags for x in ("avx512f", "avx512bw", "avx512cd", "avx512dq", "avx512vl")):
                b = build_variant(c, "avx512", {"RUSTFLAGS": "-C target-feature=" + AVX512})
                if b:
                    conds.append(("avx512-t16", b, {"RAYON_NUM_THREADS": "16"}))
                    conds.append(("avx512-t3", b, {"RAYON_NUM_THREADS": "3"}))
            else:
                skipped.append("avx512 (cpu)")
        if "seed" in wanted:
            # const-random-macro reads option_env!("CONST_RANDOM_SEED") at compile time; without it every
            # clean build draws fresh keys from getrandom
            b = build_variant(c, "seed", {"CONST_RANDOM_SEED": OTHER_SEED})
            if b:
                conds.append(("otherseed-t16", b, {"RAYON_NUM_THREADS": "16"}))
                conds.append(("otherseed-t1", b, {"RAYON_NUM_THREADS": "1"}))
    # ------------------------------------------------------------------ produce
    runs = {}           # name -> (digests, infos, cmdline)
    proofdirs = {}
    for name, b, env in conds:
        pdir = os.path.join(c.work, "proofs_" + name)
        shutil.rmtree(pdir, ignore_errors=True)
        outfile = os.path.join(c.work, "out_%s.txt" % name)
        cmdline = "%s %s c19 %d %s %s %s" % (" ".join("%s=%s" % kv for kv in env.items()), b, c.seed, c.tier, outfile, pdir)
        if c.run_harness(b, "c19", outfile, extra=[pdir], timeout=6000, env=env):
            d, i, order = parse(outfile)
            runs[name] = (d, i, cmdline, order)
            proofdirs[name] = pdir
    names = [n for n, _, _ in conds if n in runs]
    cmp_path = os.path.join(c.work, "compare.txt")
    ncmp, ndiff, differing = 0, 0, []
    dist = {}
    with open(cmp_path, "w") as cf:
        if names:
            ref = names[0]
            rd, ri, rcmd, rorder = runs[ref]
            for other in names[1:]:
                od, oi, ocmd, _ = runs[other]
                for art in rorder + [k for k in od if k not in rd]:
                    same = art in rd and art in od and rd[art] == od[art]
                    cf.write("c19 %s %s %s = %d\n" % (art, ref, other, 1 if same else 0))
                    ncmp += 1
                    fam = art.split("/")[0] if art.split("/")[0] in ("merkle", "fft", "batch", "polybatch", "stark", "packed") \
                        else "circuit:" + art.split("/")[-1]
                    dist[fam] = dist.get(fam, 0) + 1
                    if not same:
                        ndiff += 1
                        if len(differing) < 40:
                            differing.append({"artefact": art, "condA": ref, "condB": other,
                                              "digestA": rd.get(art), "digestB": od.get(art), "cmdA": rcmd, "cmdB": ocmd})
            # ---------------------------------------------------------- cross-verification
            nver, verfail = 0, []
            for vname, b, env in conds:
                if vname not in runs:
                    continue
                vfile = os.path.join(c.work, "verify_%s.txt" % vname)
                dirs = [proofdirs[p] for p in names]
                cmdline = "%s %s c19 %d %s %s verifyfile %s" % (" ".join("%s=%s" % kv for kv in env.items()), b,
                                                                 c.seed, c.tier, vfile, " ".join(dirs))
                if not c.run_harness(b, "c19", vfile, extra=["verifyfile"] + dirs, timeout=6000, env=env):
                    continue
                for line in open(vfile):
                    if not line.startswith("verify "):
                        continue
                    body, _, desc = line.partition("#")
                    f = body.split()
                    prod = f[2][len("proofs_"):] if f[2].startswith("proofs_") else f[2]
                    ok = f[4] == "1"
                    cf.write("c19 verify:%s %s %s = %d\n" % (f[1], prod, vname, 1 if ok else 0))
                    nver += 1
                    dist["cross-verify"] = dist.get("cross-verify", 0) + 1
                    if not ok and len(verfail) < 40:
                        verfail.append({"artefact": "verify:" + f[1], "condA": prod, "condB": vname, "detail": desc.strip(),
                                        "cmdA": runs[prod][2] if prod in runs else "?", "cmdB": cmdline})
        else:
            nver, verfail = 0, []
    for d in differing[:10]:
        c.violation(d, "identical bytes under every schedule / build", "%s vs %s" % (d["digestA"], d["digestB"]),
                    "artefact %s differs between %s and %s" % (d["artefact"], d["condA"], d["condB"]))
    for v in verfail[:10]:
        c.violation(v, "a proof produced under one condition is accepted under every other", v["detail"],
                    "proof %s produced under %s is not accepted under %s (%s)" % (v["artefact"], v["condA"], v["condB"], v["detail"][:80]))
    # facts about the conditions actually exercised
    pow_differs = sorted({k for n in names for k in runs[n][1] if k.endswith("pow_witness")
                          and len({runs[m][1].get(k) for m in names}) > 1})
    hash_orders = {n: runs[n][1].get("hash_iteration_order") for n in names}
    packing = {n: runs[n][1].get("packing_width") for n in names}
    if len(names) < len(conds):
        c.broken.append("conditions that did not run: %s" % ", ".join(n for n, _, _ in conds if n not in runs))
    if len(names) < 2:
        c.broken.append("fewer than two conditions ran: nothing was compared")
    if a.replay:
        print("replay: %d differing artefacts, %d failed cross-verifications" % (ndiff, len(verfail)))
        sys.exit(1 if c.violations else 0)
    samples = []
    if os.path.exists(cmp_path):
        for i, line in enumerate(open(cmp_path)):
            if i % max(1, (ncmp + nver) // 8) == 0 and len(samples) < 10:
                samples.append(line.strip())
    coverage = {
        "programs": len({k.split("/")[0] for n in names[:1] for k in runs[n][0] if k.endswith("/common_bytes")}),
        "disagreements_checked": ncmp + nver, "samples": samples or ["none"],
        "conditions": names, "digest_comparisons": ncmp, "digests_differing": ndiff,
        "cross_verifications": nver, "cross_verifications_failed": len(verfail),
        "artefacts_per_run": len(runs[names[0]][0]) if names else 0,
        "packing_width_per_condition": packing, "hash_iteration_order_per_condition": hash_orders,
        "distinct_hash_states": len(set(hash_orders.values())),
        "pow_witness_differs_between_conditions": pow_differs[:12],
        "variants_skipped": skipped,
        "obligations": len(thms), "discharged": len([t for t in thms if assumptions.get(t, "").startswith("Closed")]),
        "theorems": {t: assumptions.get(t, "not checked") for t in thms},
        "evaluations": ncmp + nver, "distinct_nontrivial": len(dist), "distribution": dist,
        "compare_file": cmp_path,
        "rule": "fixed corpus (DSL circuits with lookups/hashing over 11 configurations incl. zero-knowledge, Merkle trees, "
                "FFT/LDE, packed batch helpers, polynomial commitments, a STARK) rebuilt in separate processes; every digest "
                "compared with the first condition, every proof verified under every condition; distinct = artefact families",
    }
    c.finish("translation_validation", coverage, [
        "decided by agreement of runs: thread counts 1/3/16 (twice each) in the quick tier; debug, AVX2, AVX-512 and "
        "other-const-random-seed builds only in the thorough tier (or VERIF_C19_VARIANTS)",
        "hashbrown's default hasher in this build has no run-time seeding (BuildHasherDefault<AHasher>, compile-time keys): "
        "two processes of one binary iterate maps identically; only the other-seed / separately built variants vary the hash state "
        "(hash_iteration_order_per_condition records it)",
        "proof bytes are not deterministic even with zero_knowledge off (randomize_unused_pi_wires draws from OsRng; PoW witness from "
        "find_any): compared are keys, witnesses outside the randomised cells, commitments/transforms and pre-PoW STARK transcripts; "
        "proofs are cross-verified instead",
        "actual thread interleavings, lane-level SIMD semantics and rayon itself are outside any model; the Coq lemmas "
        "(sort by unique key, chunked map, disjoint writes, any PoW witness) are supporting obligations"])
