"""C14 - Field arithmetic is exact modular arithmetic on every representation."""
import json, os, sys
from checklib import *
import spec_c14

THEOREMS = theorems_of("Props/C14.v", "Props/C14b.v")

def oracle_scan(c, casefile, limit=20):
    """property oracle over the implementation's results; returns (#checked, failures)"""
    fails, n, dist = [], 0, {}
    for lineno, op, args, res in parse_case_lines(casefile):
        n += 1
        dist[op] = dist.get(op, 0) + 1
        msg = spec_c14.check(op, args, res)
        if msg is not None and keep_failure(fails, msg):
            fails.append({"line": lineno, "op": op, "args": args, "impl": res, "why": msg})
    return n, fails, dist

def main():
    a = std_args().parse_args()
    c = Check("C14", a.tier, a.seed)
    if a.replay:
        return replay(c, a.replay)
    ok_tr, errs = c.regenerate()
    ok_mk, log = c.make(["Props/C14.vo", "Props/C14b.vo", "Model/C14Run.vo"])
    assumptions = c.audit(["Props.C14", "Props.C14b"], THEOREMS) if ok_mk else {}
    binary = c.build_harness("release")
    counts, mism, total, nchecked, fails, dist = {}, [], (0, 0), 0, [], {}
    cli = None
    samples = []
    casefile = os.path.join(c.work, "cases.txt")
    if binary and c.run_harness(binary, "c14", casefile):
        nchecked, fails, dist = oracle_scan(c, casefile)
        for f in fails:
            c.violation(f, "result congruent to the specification", f["impl"],
                        "implementation contradicts the field specification: %s %s" % (f["op"], f["why"]))
        if ok_mk:
            cli = c.build_model_cli()
            if cli:
                counts, mism, total = c.run_model(cli, "c14", casefile)
                if mism:
                    c.broken.append("model/implementation correspondence: %d disagreements, first: %s"
                                    % (total[1], mism[0]))
        with open(casefile) as f:
            for i, line in enumerate(f):
                if i % 4001 == 0 and len(samples) < 12:
                    samples.append(line.strip())
    # debug build: overflow checks and debug_assert on (the checked monad's None = debug panic)
    dbg_n = 0
    if a.tier == "thorough" or os.environ.get("VERIF_C14_DEBUG") == "1":
        dbin = c.build_harness("debug")
        if dbin:
            dfile = os.path.join(c.work, "cases_debug.txt")
            if c.run_harness(dbin, "c14", dfile):
                dbg_n, dfails, _ = oracle_scan(c, dfile)
                for f in dfails:
                    c.violation(f, "no panic, result congruent", f["impl"],
                                "debug build: %s %s" % (f["op"], f["why"]))
    # SIMD builds: packed lanes of AVX2 / AVX-512 builds against the oracle and the scalar model
    simd = {}
    if a.tier == "thorough" or os.environ.get("VERIF_C14_SIMD") == "1":
        import shutil
        cpu = open("/proc/cpuinfo").read()
        flavours = [("avx2", "-C target-feature=+avx2")]
        if "avx512f" in cpu:
            flavours.append(("avx512", "-C target-feature=+avx512f,+avx512bw,+avx512cd,+avx512dq,+avx512vl"))
        for name, flags in flavours:
            if name == "avx2" and "avx2" not in cpu:
                continue
            sbin = c.build_harness("release", rustflags=flags, target_dir="target_c14_" + name)
            if sbin:
                sfile = os.path.join(c.work, "cases_%s.txt" % name)
                if c.run_harness(sbin, "c14", sfile):
                    sn, sfails, sdist = oracle_scan(c, sfile)
                    simd[name] = {"cases": sn, "oracle_failures": len(sfails),
                                  "packed_lane_cases": sum(v for k, v in sdist.items() if k.startswith("p"))}
                    for f in sfails:
                        c.violation(dict(f, build=name), "result congruent to the specification", f["impl"],
                                    "%s build contradicts the field specification: %s %s" % (name, f["op"], f["why"]))
                    if ok_mk and cli:
                        _, smism, stotal = c.run_model(cli, "c14", sfile)
                        simd[name]["model_mismatches"] = stotal[1]
                        if smism:
                            c.broken.append("%s build: %d disagreements with the model, first: %s" % (name, stotal[1], smism[0]))
            shutil.rmtree(os.path.join(HARNESS, "target_c14_" + name), ignore_errors=True)
    # in-Coq subset (no extraction): a handful of boundary cases through vm_compute
    incoq = None
    if ok_mk:
        exprs = ["run_add [18446744073709551615; 18446744073709551615]", "run_sub [0; 18446744073709551615]",
                 "run_mul [18446744069414584320; 18446744069414584320]", "run_red128 [340282366920938463463374607431768211455]",
                 "run_ext5mul [1;2;3;4;5;18446744073709551615;7;8;9;10]", "run_inv [7]"]
        incoq = c.coq_eval_subset(["Model.C14Run"], exprs)
    nthm = len(THEOREMS)
    discharged = len([t for t in THEOREMS if assumptions.get(t, "").startswith("Closed")]) if ok_mk else 0
    coverage = {
        "obligations": nthm, "discharged": discharged,
        "checker_cmd": "tools/rs2v.py /repo coq/Gen && make -C coq Props/C14.vo && coqc Audit (Print Assumptions)",
        "trusted_base": ["Coq 8.16.1 kernel + vm_compute", "tools/rs2v.py (Rust subset -> Gallina checked monad)",
                         "ExtrOcamlBasic + ExtrOcamlZBigInt, OCaml 4.13.1, zarith, extract/main.ml",
                         "harness/src/c14.rs, tools/spec_c14.py (Python bigint oracle)"],
        "theorems": {t: assumptions.get(t, "not checked") for t in THEOREMS},
        "translator_ok": ok_tr, "translator_errors": errs,
        "correspondence_cases": total[0], "correspondence_mismatches": total[1],
        "oracle_checked": nchecked, "debug_build_cases": dbg_n, "simd_builds": simd,
        "distribution": dist, "samples": samples, "in_coq_subset": incoq,
        "evaluations": nchecked, "distinct_nontrivial": len(dist),
        "rule": "boundary grid (46 representations squared) + mixed boundary/uniform operands from VERIF_SEED; "
                "distinct_nontrivial counts distinct operations exercised",
    }
    c.finish("proof", coverage, [
        "the x86-64 asm body of add_no_canonicalize_trashing_input is compared, not translated (portable twin is proved)",
        "AVX2/AVX-512 packed lanes are compared lane-wise with the oracle and the scalar model in the thorough tier (no model of the intrinsics)",
        "generic trait-default code (exp_u64, inverse_2exp, batch inverse, extension inverse/frobenius/square) is hand-modelled and tied by correspondence"])

def replay(c, path):
    r = json.load(open(path))
    case = r["case"]
    binary = c.build_harness("release")
    casefile = os.path.join(c.work, "replay_cases.txt")
    c.seed, c.tier = r["seed"], r["tier"]
    if not binary or not c.run_harness(binary, "c14", casefile):
        print("replay: harness failed"); sys.exit(2)
    for lineno, op, args, res in parse_case_lines(casefile):
        if op == case.get("op") and args == case.get("args"):
            msg = spec_c14.check(op, args, res)
            print("replay %s %s -> %s : %s" % (op, " ".join(args), " ".join(res), msg or "ok"))
            sys.exit(1 if msg else 0)
    print("replay: case not regenerated"); sys.exit(2)
