"""C11 - The in-circuit STARK verifier agrees with the native STARK verifier."""
import json, os, re, sys
from checklib import *
import spec_c06, spec_c11

def main():
    a = std_args().parse_args()
    c = Check("C11", a.tier, a.seed)
    if a.replay:
        r = json.load(open(a.replay)); c.seed, c.tier = r["seed"], r["tier"]
    ok_mk, log = c.make(props("C11")[2])
    thms = theorems_of(*props("C11")[0])
    assumptions = c.audit(props("C11")[1], thms) if ok_mk and thms else {}
    binary = c.build_harness("release")
    casefile = os.path.join(c.work, "cases.txt")
    n, dist, fails, samples, subjects, lengths, info_lines = 0, {}, [], [], set(), {}, []
    if binary and c.run_harness(binary, "c11", casefile, timeout=6000):
        for line in open(casefile):
            if not line.startswith("c11 "):
                continue
            body, _, desc = line.partition("#")
            f = body.split()
            subject, case, res = f[1], f[2], f[4:]
            info = spec_c06.parse_info(desc)
            n += 1
            subjects.add(subject)
            cls = re.sub(r"-d\d+$", "", case)
            cls = re.sub(r"\d+", "", cls)
            mode = "multi" if "-multi" in subject else "plain"
            key = "%s:%s:%s" % (mode, cls, "accepted" if info.get("native") == "ok" else "rejected")
            dist[key] = dist.get(key, 0) + 1
            if mode == "multi" and cls == "valid":
                lengths.setdefault(subject, []).append(int(info.get("d", "0")))
            if res and res[0] == "-":
                info_lines.append(line.strip()[:200])
            why = spec_c11.check("c11", [subject, case], res, info)
            if why:
                fails.append({"subject": subject, "case": case, "native": info.get("native"), "outer": info.get("outer"),
                              "why": why, "line": line.strip()[:400]})
            elif len(samples) < 8 and n % 43 == 1:
                samples.append(line.strip()[:220])
        if n == 0:
            c.broken.append("harness produced no c11 cases")
    seen = set()
    for f in fails:
        mode = "multi" if "-multi" in f["subject"] else "ctlsum" if f["subject"].startswith("ctlsum") else "plain"
        what = "mode=%s case=%s native=%s outer=%s: %s" % (mode, re.sub(r"\d+", "N", f["case"]), (f["native"] or "?").split(":")[0],
                                                     (f["outer"] or "?").split(":")[0], re.sub(r"\s*\(.*\)", "", f["why"]).strip())
        if what in seen:
            continue
        seen.add(what)
        c.violation(f, "native STARK verdict = in-circuit verdict", f["line"], what)
    if a.replay:
        print("replay: %d disagreeing cases" % len(fails)); sys.exit(1 if c.violations else 0)
    coverage = {
        "programs": len(subjects), "disagreements_checked": n, "disagreements_found": len(fails),
        "samples": samples or ["none"], "distribution": dist, "evaluations": n, "distinct_nontrivial": len(dist),
        "variable_degree_lengths_verified": {k: sorted(v) for k, v in lengths.items()},
        "outside_supported_range": info_lines,
        "rule": "STARKs defined through the public Stark trait (Fibonacci with boundary+transition constraints and public inputs, logUp permutation STARK, unconstrained STARK without quotient; lookup STARKs of the random family of harness/src/c09.rs with 2-4 looking columns, linear-combination and next-row columns and a different filter per column at constraint degree 3 (famlookup-*)) x FRI configurations (arity 2 / 4 / 16, cap heights 1-4, rate bits 1-2); plain mode: circuit built for the proof's size; variable-degree mode: ONE circuit sized for 2^max verifying proofs of every 2^d, min <= d <= max (2^3..2^8, 2^4..2^14, 2^4..2^10), prover and native verifier given the circuit's FRI parameters; per proof: valid, one altered element per class (local / next / quotient / auxiliary openings, query leaf, Merkle siblings, step evaluation, final-polynomial coefficient, public input, trace / quotient / auxiliary / commit caps, PoW witness), the degree argument off by one, a proof of another length, a proof without transcript padding, a shortened final polynomial. native = verify_stark_proof (+ degree argument = proof degree); outer = set_stark_proof_with_pis_target, witness generation, gate constraints re-evaluated on every row, prove, verify, public inputs re-exposed",
        "obligations": len(thms), "discharged": len([t for t in thms if assumptions.get(t, "").startswith("Closed")]),
        "theorems": {t: assumptions.get(t, "not checked") for t in thms},
        "checker_cmd": "make -C coq Props/C11.vo Props/C11b.vo && coqc Audit (Print Assumptions); harness c11",
        "trusted_base": ["Coq 8.16.1 kernel (component theorem)", "harness/src/c11.rs, harness/src/c06.rs", "tools/spec_c11.py"],
    }
    c.finish("translation_validation", coverage, [
        "only the transcript-padding component is proved; the verdict agreement is compared per case",
        "cross-table lookups (ctl_vars) are not exercised: verify_stark_proof_circuit passes None",
        "the variable-degree mode needs the circuit's final polynomial to have 2^(final_poly_bits+1) coefficients (asserted by the prover); configurations are chosen accordingly"])
