"""C02 - No accepted proof exists for an assignment that violates the circuit."""
import json, os, re, sys
from checklib import *
import spec_c02

def scan(casefile):
    """oracle over the harness output: returns dict of counters and the list of failing cases"""
    st = {"cases": 0, "honest": 0, "knob": 0, "cpp": 0, "skipped": 0, "dist": {}, "outcomes": {}, "programs": set(),
          "classes": set(), "samples": [], "skipped_classes": {}}
    fails = []
    for lineno, op, args, res in parse_case_lines(casefile):
        msg = spec_c02.check(op, args, res)
        if op == "cpp":
            st["cpp"] += 1
            if msg:
                fails.append({"op": op, "line": lineno, "why": msg, "what": "check_partial_products contradicts its definition: " + msg})
            continue
        if op == "c02skip":
            st["skipped"] += int(res[0])
            for kv in (res[-1].split(",") if len(res) > 2 else []):
                if ":" in kv:
                    k, v = kv.rsplit(":", 1)
                    st["skipped_classes"][k] = st["skipped_classes"].get(k, 0) + int(v)
            continue
        if op == "c02honest":
            st["honest"] += 1
            st["programs"].add((args[0], args[1]))
            if msg:
                fails.append({"op": op, "program": args[0], "config": args[1], "why": msg,
                              "what": "honest witness/proof rejected (config %s)" % args[1]})
            continue
        if op == "c02knob":
            st["knob"] += 1
            key = "knob-on-honest:%s:%s" % (args[2], spec_c02.field(res, "outcome"))
            st["outcomes"][key] = st["outcomes"].get(key, 0) + 1
            if msg:
                fails.append({"op": op, "program": args[0], "config": args[1], "strategy": args[2], "why": msg,
                              "what": "strategy on honest witness: " + msg})
            continue
        if op == "c02":
            st["cases"] += 1
            prog, cfg, cls, strat = args[0], args[1], args[2], args[3]
            out = spec_c02.field(res, "outcome") or "?"
            out_class = out.split(":")[0]
            st["dist"]["%s|%s" % (cls, strat)] = st["dist"].get("%s|%s" % (cls, strat), 0) + 1
            st["outcomes"][out_class] = st["outcomes"].get(out_class, 0) + 1
            st["classes"].add(cls)
            if msg:
                viol = spec_c02.field(res, "violated") or "?"
                kind = ":".join(viol.split(":")[:2])
                fails.append({"op": op, "program": prog, "config": cfg, "class": cls, "strategy": strat,
                              "detail": " ".join(res[2:])[:400], "why": msg,
                              "what": "accepted proof for a violated circuit: class=%s strategy=%s violated=%s" % (cls, strat, kind)})
            elif len(st["samples"]) < 8 and st["cases"] % 53 == 0:
                st["samples"].append(("c02 " + " ".join(args) + " = " + " ".join(res))[:220])
    return st, fails

def main():
    a = std_args().parse_args()
    c = Check("C02", a.tier, a.seed)
    if a.replay:
        r = json.load(open(a.replay)); c.seed, c.tier = r["seed"], r["tier"]
    ok_mk, log = c.make(["Props/C02.vo", "Model/C02Run.vo", "Model/C08Run.vo"])
    thms = theorems_of("Props/C02.v")
    assumptions = c.audit("Props.C02", thms) if ok_mk and thms else {}
    binary = c.build_harness("release")
    casefile = os.path.join(c.work, "cases.txt")
    st, fails, total, mism, ptotal = None, [], (0, 0), [], (0, 0)
    if binary and c.run_harness(binary, "c02", casefile, timeout=20000):
        st, fails = scan(casefile)
        if ok_mk:
            cli = c.build_model_cli()
            if cli:
                counts, mism, total = c.run_model(cli, "c02", casefile)
                if mism:
                    c.broken.append("Model/Permutation.v check_partial_products disagrees with the implementation on %d cases, first: %s"
                                    % (total[1], mism[0][:300]))
                # the adversarial proofs dumped as `plonkverify` lines must get the same verdict from the Gallina verifier
                if '"plonk"' in open(os.path.join(EXTRACT, "main.ml")).read():
                    _, pmism, ptotal = c.run_model(cli, "plonk", casefile)
                    if pmism:
                        c.broken.append("Gallina verifier (Model/Plonk.v) and data.verify disagree on %d adversarial proofs, first: %s"
                                        % (ptotal[1], pmism[0][:200]))
    if a.replay:
        want = json.load(open(a.replay))["case"]
        hit = [f for f in fails if all(f.get(k) == want.get(k) for k in ("op", "program", "config", "class", "strategy"))]
        print("replay: %d matching failing cases (%d failing in total)" % (len(hit), len(fails)))
        for f in hit[:3]:
            print("  ", f["why"], "|", f.get("detail", ""))
        sys.exit(1 if hit else 0)
    seen = set()
    for f in fails:
        if f["what"] in seen:
            continue
        seen.add(f["what"])
        c.violation(f, "an error, or a proof that verify rejects", f.get("detail", f["why"]), f["what"])
    st = st or {"cases": 0, "honest": 0, "knob": 0, "cpp": 0, "skipped": 0, "dist": {}, "outcomes": {}, "programs": set(),
                "classes": set(), "samples": [], "skipped_classes": {}}
    coverage = {
        "programs": len(st["programs"]), "disagreements_checked": st["cases"], "samples": st["samples"] or ["none"],
        "adversarial_cases": st["cases"], "accepted_for_violated_circuit": len([f for f in fails if f["op"] == "c02"]),
        "honest_sanity": st["honest"], "strategies_on_honest_witness": st["knob"],
        "corruptions_skipped_circuit_still_satisfied": st["skipped"], "skipped_by_class": st["skipped_classes"],
        "outcomes": st["outcomes"], "distribution": st["dist"],
        "evaluations": st["cases"] + st["honest"] + st["knob"], "distinct_nontrivial": len(st["dist"]),
        "check_partial_products_correspondence_cases": total[0], "check_partial_products_mismatches": total[1],
        "check_partial_products_oracle_cases": st["cpp"],
        "adversarial_proofs_replayed_by_gallina_verifier": ptotal[0], "gallina_verifier_disagreements": ptotal[1],
        "obligations": len(thms), "discharged": len([t for t in thms if assumptions.get(t, "").startswith("Closed")]),
        "theorems": {t: assumptions.get(t, "not checked") for t in thms},
        "rule": "DSL programs (all gadget families) x configurations (incl. quotient degree factors 7 and 12 where the prover's divisibility "
                "check is live); corruption classes = per gate type {input, routed output, advice intermediate, preset output}, copy-class member, "
                "copy-class value, public input, looked-up pair / input / output / multiplicity / table cell; a corruption counts only if the real "
                "evaluators report a violated gate constraint, copy constraint (sigma cycles) or lookup relation; strategies = ignore-checks, z-zero, "
                "z-first, quotient-perturb, lenient-trim, pow-override (+ sldc-shift on lookups); distinct = (class, strategy) pairs",
    }
    c.finish("translation_validation", coverage, [
        "the end-to-end statement is decided on generated cases by the implementation's own verifier; a sample of the adversarial proofs is replayed by the Gallina verifier (Model/Plonk.v), which must give the same verdict",
        "kernel theorems (telescoping of the chunked partial products incl. wrap-around, completeness of the prover's accumulator, alpha-combination and zeta root bounds) are proved on the model; their composition with FRI proximity and the random oracle is not formalised",
        "an error or panic of the proving API counts as 'no accepted proof'"])
