"""C07 - Every value a gate computes is pinned by that gate's constraints."""
import json, os, re, sys
from checklib import *
import spec_c07

# the theorems this check expects to find in coq/Props/C07.v (the audit covers every Theorem there)
THEOREMS = [
    "C07_count", "C07_gen_sat", "C07_gen_pinned", "C07_gen_sat_goldilocks", "C07_gen_pinned_goldilocks",
    "C07_reducing_zero_coeffs_unpinned", "C07_filter_zero_other", "C07_filter_zero_unused",
    "C07_filter_nonzero_own", "C07_filter_nonzero_own_goldilocks",
    "C07_eval_hom", "C07_eval_embed_goldilocks", "C07_constraints_are_polynomials", "C07_degree_bound",
]


def oracle_scan(casefile, limit=20):
    """property oracle over the implementation's results; returns (#checked, failures, distribution)"""
    fails, n, dist = [], 0, {}
    for lineno, op, args, res in parse_case_lines(casefile):
        n += 1
        dist[op] = dist.get(op, 0) + 1
        msg = spec_c07.check(op, args, res)
        if msg is not None and keep_failure(fails, msg):
            fails.append({"line": lineno, "op": op, "args": args[:400], "impl": res[:200], "why": msg})
    return n, fails, dist


def model_casefile(casefile):
    """the extracted model prints `fail` where the implementation's outcome is `panic`"""
    out = casefile + ".model"
    with open(casefile) as f, open(out, "w") as g:
        for line in f:
            g.write(re.sub(r"= panic\s*$", "= fail\n", line))
    return out


def report_violations(c, fails, prefix=""):
    for f in fails:
        c.violation(f, "generated rows satisfy the gate, single-wire replacements are noticed, evaluators agree",
                    f["impl"], "%simplementation contradicts C07: %s %s" % (prefix, f["op"], f["why"]))


def incoq_subset(c, casefile, want=10):
    """a handful of short cases re-evaluated inside Coq by vm_compute (no extraction involved) and compared
    with the implementation's results"""
    fn = {"evalbase": "run_gate_evalbase", "evalext": "run_gate_evalext", "generate": "run_gate_generate", "filter": "run_gate_filter",
          "sizes": "run_gate_sizes", "pinned": "run_gate_pinned"}
    picked, seen = [], {}
    for lineno, op, args, res in parse_case_lines(casefile):
        if op in fn and len(args) <= 48 and res != ["panic"] and seen.get(op, 0) < 2:
            seen[op] = seen.get(op, 0) + 1
            picked.append((op, args, res))
        if len(picked) >= want:
            break
    if not picked:
        return None
    exprs = ["%s [%s]" % (fn[op], "; ".join(args)) for op, args, _ in picked]
    got = c.coq_eval_subset(["Model.C07Run"], exprs)
    if got is None:
        return None
    if len(got) != len(picked):
        c.broken.append("in-Coq subset: expected %d results, got %d" % (len(picked), len(got)))
        return got
    for (op, args, res), g in zip(picked, got):
        nums = re.findall(r"-?\d+", g.replace("Some", ""))
        if not g.startswith("Some") or nums != res:
            c.broken.append("in-Coq subset disagrees with the implementation on %s %s" % (op, " ".join(args[:12])))
            break
    return got


def main():
    a = std_args().parse_args()
    c = Check("C07", a.tier, a.seed)
    if a.replay:
        return replay(c, a.replay)
    ok_tr, errs = c.regenerate()
    ok_mk, log = c.make(["Model/C07Run.vo"] + props("C07")[2])
    thms = theorems_of(*props("C07")[0])
    missing = [t for t in THEOREMS if t not in thms]
    if missing:
        c.broken.append("property theorems missing from Props/C07.v: " + ", ".join(missing))
    assumptions = c.audit(props("C07")[1], thms) if ok_mk else {}
    binary = c.build_harness("release")
    counts, mism, total, nchecked, fails, dist = {}, [], (0, 0), 0, [], {}
    samples, incoq = [], None
    casefile = os.path.join(c.work, "cases.txt")
    if binary and c.run_harness(binary, "c07", casefile):
        nchecked, fails, dist = oracle_scan(casefile)
        report_violations(c, fails)
        # the model must be runnable even if a proof broke
        ok_run = ok_mk or c.make(["Model/C07Run.vo"])[0]
        if ok_run:
            cli = c.build_model_cli()
            if cli:
                counts, mism, total = c.run_model(cli, "c07", model_casefile(casefile))
                if mism:
                    c.broken.append("model/implementation correspondence: %d disagreements, first: %s"
                                    % (total[1], mism[0][:600]))
                    if not fails and c.tier != "thorough":
                        # failing-input search: the thorough generator replaces EVERY generator-written wire
                        sfile = os.path.join(c.work, "cases_search.txt")
                        saved = c.tier
                        c.tier = "thorough"
                        if c.run_harness(binary, "c07", sfile):
                            _, sfails, _ = oracle_scan(sfile)
                            report_violations(c, sfails, "search: ")
                        c.tier = saved
            incoq = incoq_subset(c, casefile)
        with open(casefile) as f:
            for i, line in enumerate(f):
                if i % 701 == 0 and len(samples) < 12:
                    samples.append(line.strip()[:300])
    # debug build (debug_assert! of the generators, overflow checks of the index arithmetic) in the
    # thorough tier: additional `genguard` lines and the degenerate parameterisations
    dbg_n, dbg_total = 0, (0, 0)
    if a.tier == "thorough" or os.environ.get("VERIF_C07_DEBUG") == "1":
        dbin = c.build_harness("debug")
        if dbin:
            dfile = os.path.join(c.work, "cases_debug.txt")
            saved = c.tier
            c.tier = "quick"
            if c.run_harness(dbin, "c07", dfile):
                dbg_n, dfails, _ = oracle_scan(dfile)
                report_violations(c, dfails, "debug build: ")
                cli = os.path.join(EXTRACT, "model_cli")
                if os.path.exists(cli):
                    _, dm, dbg_total = c.run_model(cli, "c07", model_casefile(dfile))
                    if dm:
                        c.broken.append("debug build: model/implementation correspondence: %d disagreements, first: %s"
                                        % (dbg_total[1], dm[0][:600]))
            c.tier = saved
    nthm = len(thms)
    discharged = len([t for t in thms if assumptions.get(t, "").startswith("Closed")]) if ok_mk else 0
    coverage = {
        "obligations": nthm, "discharged": discharged,
        "checker_cmd": "tools/rs2v.py /repo coq/Gen && make -C coq Props/C07.vo && coqc Audit (Print Assumptions)",
        "trusted_base": ["Coq 8.16.1 kernel + vm_compute / lazy",
                         "tools/rs2v.py (Poseidon tables, field constants)",
                         "ExtrOcamlBasic + ExtrOcamlZBigInt, OCaml 4.13.1, zarith, extract/main.ml",
                         "harness/src/c07.rs, tools/spec_c07.py (Python oracle on the implementation's outputs)"],
        "theorems": {t: assumptions.get(t, "not checked") for t in thms},
        "translator_ok": ok_tr, "translator_errors": errs,
        "correspondence_cases": total[0], "correspondence_mismatches": total[1],
        "correspondence_by_op": counts,
        "oracle_checked": nchecked, "debug_build_cases": dbg_n, "debug_correspondence": list(dbg_total),
        "distribution": dist, "samples": samples, "in_coq_subset": incoq,
        "evaluations": nchecked, "distinct_nontrivial": len(dist),
        "polynomial_identity": {"max_degree": 64, "field_bits": 64,
                                "note": "each evalext/evalbase/evalcirc case is an independent random point"},
        "rule": "parameter grid per gate (defaults and non-default values) x boundary/uniform rows from VERIF_SEED; "
                "generated rows for every valid input variant; single-wire replacements of sampled (quick) or all "
                "(thorough) generator-written wires",
    }
    c.finish("proof", coverage, [
        "the four Rust evaluators (eval_unfiltered, base batch / packed, in-circuit) are tied to ONE polymorphic "
        "model function by correspondence; that the model instances agree with each other is proved (C07_eval_hom)",
        "the degree theorem is about the model evaluator run on coefficient lists (Base/Poly.v); the implementation's "
        "degrees are measured as gate_testing::test_low_degree does",
        "LookupGate / LookupTableGate have zero gate constraints; their generators are outside C07 (C08)",
        "ReducingGate{num_coeffs:0} is excluded from gen_pinned by a visible premise and proved unpinned",
        "AVX2/AVX-512 packed lanes: eval_unfiltered_base_batch is exercised in the default (scalar packing) build"])


def replay(c, path):
    r = json.load(open(path))
    case = r["case"]
    binary = c.build_harness("release")
    casefile = os.path.join(c.work, "replay_cases.txt")
    c.seed, c.tier = r["seed"], r["tier"]
    if not binary or not c.run_harness(binary, "c07", casefile):
        print("replay: harness failed"); sys.exit(2)
    for lineno, op, args, res in parse_case_lines(casefile):
        if op == case.get("op") and args[:400] == case.get("args"):
            msg = spec_c07.check(op, args, res)
            print("replay %s %s .. -> %s .. : %s" % (op, " ".join(args[:8]), " ".join(res[:8]), msg or "ok"))
            sys.exit(1 if msg else 0)
    print("replay: case not regenerated"); sys.exit(2)
