"""C16 - Proof compression is lossless and verification-equivalent."""
import json, os, re, sys
from checklib import *

def main():
    a = std_args().parse_args()
    c = Check("C16", a.tier, a.seed)
    if a.replay:
        r = json.load(open(a.replay)); c.seed, c.tier = r["seed"], r["tier"]
    ok_mk, log = c.make(["Model/C16Run.vo", "Model/C16Run2.vo"] + props("C16")[2])
    thms = theorems_of(*props("C16")[0])
    assumptions = c.audit(props("C16")[1], thms) if ok_mk else {}
    binary = c.build_harness("release")
    casefile = os.path.join(c.work, "cases.txt")
    n, dist, fails, samples, stats = 0, {}, [], [], []
    total, mism = (0, 0), []
    if binary and c.run_harness(binary, "c16", casefile, timeout=6000):
        for line in open(casefile):
            if not line.startswith("c16 "):
                continue
            body, _, desc = line.partition("#")
            f = body.split()
            base, case, ok = f[1], f[2], f[4]
            n += 1
            dist[case] = dist.get(case, 0) + 1
            if case == "lossless":
                stats.append(desc.strip())
            if ok != "1":
                fails.append({"base": base, "case": case, "detail": desc.strip()})
            elif len(samples) < 6 and n % 13 == 0:
                samples.append(line.strip()[:200])
        if ok_mk:
            cli = c.build_model_cli()
            if cli:
                counts, mism, total = c.run_model(cli, "c16", casefile)
                if mism:
                    c.broken.append("Model/FriCompress.v / Model/Dedup.v disagree with FriProof::compress / decompress / get_inferred_elements on %d cases, first: %s" % (total[1], mism[0][:300]))
    for f in fails[:10]:
        c.violation(f, "lossless and verification-equivalent", f["detail"],
                    "compression property failed: %s (%s)" % (f["case"], re.sub(r"\d+", "N", f["detail"])[:120]))
    if a.replay:
        print("replay: %d failing cases" % len(fails)); sys.exit(1 if c.violations else 0)
    coverage = {
        "obligations": len(thms), "discharged": len([t for t in thms if assumptions.get(t, "").startswith("Closed")]),
        "checker_cmd": "make -C coq Props/C16.vo Props/C16b.vo && coqc Audit (Print Assumptions)",
        "trusted_base": ["Coq 8.16.1 kernel", "extraction (ExtrOcamlBasic, ExtrOcamlZBigInt) for the correspondence ops dedup / fricompress / fridecompress / friinferred",
                         "harness/src/c16.rs, harness/src/c16b.rs", "hash functions abstract in the theorems (collision exhibited as a value)"],
        "theorems": {t: assumptions.get(t, "not checked") for t in thms},
        "evaluations": n, "distinct_nontrivial": len(dist), "distribution": dist, "samples": samples or ["none"],
        "collision_statistics": stats, "dedup_correspondence_cases": total[0], "dedup_mismatches": total[1],
        "model_correspondence_cases": total[0], "model_correspondence_mismatches": total[1], "model_counts": counts,
        "rule": "accepted proofs with 20-80 queries on 2^3..2^5-row circuits (repeated indices and shared cosets are the norm); lossless round trip, both verifiers accept, byte round trip, single-leaf tampering of the compressed form compared with decompress+verify; altered originals (public inputs of the wrong length, edits outside the per-query data) verified plainly and via compress+verify_compressed; FriProof::compress / CompressedFriProof::decompress / get_inferred_elements replayed by Model/FriCompress.v on real proofs and on inconsistent inputs (altered data under a repeated index, missing map entries, too few / too many inferred elements, other index orders)",
    }
    c.finish("proof", coverage, [
        "Props/C16b.v: decompress (compress p) = p for every proof accepted by the FRI verifier model, or an explicit hash collision; the PLONK-level wrapper (CompressedProof: the same FRI compression plus verbatim fields) is covered by correspondence",
        "verification equivalence: verify_compressed is decompress followed by the ordinary checks in the code; the equivalence on altered originals is compared on the implementation",
        "a panic of the compressed path counts as rejection here (reported under C18)"])
