"""C05 - FRI opening proofs attest only true evaluations of low-degree polynomials."""
import json, os, re, sys
from checklib import *

def main():
    a = std_args().parse_args()
    c = Check("C05", a.tier, a.seed)
    if a.replay:
        r = json.load(open(a.replay)); c.seed, c.tier = r["seed"], r["tier"]
    targets = ["Model/C05Run.vo", "Model/C05Run2.vo", "Model/C05Run3.vo", "Model/BatchFri.vo"] + props("C05")[2]
    ok_mk, log = c.make(targets)
    thms = theorems_of(*props("C05")[0])
    assumptions = c.audit(props("C05")[1], thms) if ok_mk and thms else {}
    binary = c.build_harness("release")
    casefile = os.path.join(c.work, "cases.txt")
    n, dist, fails, samples, skipped = 0, {}, [], [], 0
    total, mism = (0, 0), []
    if binary and c.run_harness(binary, "c05", casefile, timeout=6000):
        # arity schedules against their definition (independent of the model)
        import spec_c05
        nsched = 0
        for lineno, op, args, res in parse_case_lines(casefile):
            if op != "aritybits":
                continue
            nsched += 1
            why = spec_c05.check(op, args, res)
            if why:
                fails.append({"shape": "aritybits", "case": "arity-schedule", "detail": why, "line": lineno})
        dist["arity-schedule"] = nsched
        for line in open(casefile):
            if not line.startswith("c05 "):
                continue
            body, _, desc = line.partition("#")
            f = body.split()
            shape, case, ok = f[1], f[2], f[4]
            if ok == "-":
                skipped += 1; continue
            n += 1
            dist[case] = dist.get(case, 0) + 1
            if ok != "1":
                fails.append({"shape": shape, "case": case, "detail": desc.strip()})
            elif len(samples) < 8 and n % 17 == 0:
                samples.append(line.strip()[:220])
        if ok_mk:
            cli = c.build_model_cli()
            if cli:
                counts, mism, total = c.run_model(cli, "c05", casefile)
                if mism:
                    c.broken.append("Model/Fri.v disagrees with verify_fri_proof (verdict or failing-check class) on %d cases, first: %s" % (total[1], mism[0][:200]))
                if total[0] == 0:
                    c.broken.append("no FRI correspondence case was produced")
    seen = set()
    for f in fails:
        what = "FRI property failed: %s (%s)" % (f["case"], re.sub(r"\d+", "N", f["detail"])[:100])
        if what in seen: continue
        seen.add(what)
        c.violation(f, "honest proof accepted / deviation rejected", f["detail"], what)
    if a.replay:
        print("replay: %d failing cases" % len(fails)); sys.exit(1 if c.violations else 0)
    coverage = {
        "obligations": max(len(thms), 1), "discharged": len([t for t in thms if assumptions.get(t, "").startswith("Closed")]) if thms else 0,
        "checker_cmd": "make -C coq Props/C05.vo Model/C05Run.vo && coqc Audit (Print Assumptions)",
        "trusted_base": ["Coq 8.16.1 kernel", "extraction (ExtrOcamlBasic, ExtrOcamlZBigInt), extract/main.ml",
                         "harness/src/c05.rs, harness/src/c05b.rs (batched variant)", "Model/PoseidonSpec.v (proved equal to the implementation in C13)"],
        "theorems": {t: assumptions.get(t, "not checked") for t in thms},
        "evaluations": n, "distinct_nontrivial": len(dist), "distribution": dist, "samples": samples or ["none"],
        "inadmissible_shapes_skipped": skipped,
        "model_verifier_cases": total[0], "model_verifier_mismatches": total[1],
        "programs": total[0], "disagreements_checked": total[0],
        "rule": "random oracle shapes (1-4 oracles, 1-5 polynomials each, blinding, degree 2^2..2^7, 1-3 opening points, all three reduction strategies, 1-8 queries): honest proof; wrong opening (prover rerun and fixed challenges); bad grinding; per-element edits under fixed challenges in six position classes; a function of twice the claimed degree; batched variant (harness/src/c05b.rs): three instances of strictly decreasing degree in one batch oracle, honest / wrong opening per degree class / per-element edits / dropped commit cap, each verdict replayed by Model/BatchFri.v; the honest proof over a blinded batch oracle",
    }
    level = "proof" if thms and coverage["discharged"] == len(thms) else "translation_validation"
    if not thms:
        coverage.pop("obligations"); coverage.pop("discharged")
    c.finish(level, coverage, [
        "proximity soundness (a far-from-low-degree function is rejected with high probability) is not a theorem here; it is probed by the adversarial cases",
        "batched FRI: the model of verify_batch_fri_proof (Model/BatchFri.v) is tied by correspondence on verdict classes; Props/C05b.v proves its acceptance decomposition and the binding of the injection rule, not proximity soundness"])
