"""C12 - Merkle commitments open only to the committed leaf at the committed position."""
import json, os, re, sys
from checklib import *
import spec_c12
import spec_c12k

THEOREMS = [
    "C12_prove_verify", "C12_cap_is_spec", "C12_tree_new_total", "C12_layout_total_disjoint",
    "C12_join_branches_disjoint", "C12_schedule_independent", "C12_verify_binding", "C12_verify_binding_ex",
    "C12_other_leaf_collision", "C12_altered_sibling_collision", "C12_altered_cap_rejected",
    "C12_verify_out_of_range_panics", "C12_hash_or_noop_injective_same_width", "C12_hash_or_noop_pads",
    "C12_decompress_compress", "C12_batch_prove_verify",
    "C12_example_tree", "C12_example_compression", "C12_example_batch", "C12_example_binding_hypotheses", "C12_example_poseidon_root",
]

def oracle_scan(casefile, limit=20):
    """property oracle over the implementation's results; returns (#checked, failures, distribution)"""
    fails, n, dist = [], 0, {}
    for lineno, op, args, res in parse_case_lines(casefile):
        n += 1
        key = op
        if op in ("verify", "bverify"):
            key = "%s:%s" % (op, "panic" if res == ["panic"] else ("accept" if res == ["1"] else "reject"))
        elif res == ["panic"]:
            key = op + ":panic"
        dist[key] = dist.get(key, 0) + 1
        try:
            msg = (spec_c12k if op in ('kcap', 'kprove', 'kverify') else spec_c12).check(op, args, res)
        except Exception as ex:  # malformed line: a broken harness, not a property violation
            msg = "oracle could not parse the case: %r" % (ex,)
        if msg is not None and keep_failure(fails, msg):
            short = args if len(args) <= 40 else args[:40] + ["...(%d more)" % (len(args) - 40)]
            fails.append({"line": lineno, "op": op, "args": short, "impl": res[:16], "why": msg})
    return n, fails, dist

def coq_list(z):
    return "[" + "; ".join(z) + "]"

def parse_coq_result(s):
    s = s.strip()
    if s.startswith("None"):
        return ["panic"]
    m = re.match(r"Some\s*\[(.*)\]", s, flags=re.S)
    if not m:
        return None
    body = m.group(1).strip()
    return [x.strip() for x in body.split(";")] if body else []

def in_coq_subset(c, casefile, per_op=3, max_args=120):
    """replay a few small ToyHash cases inside Coq with vm_compute (no extraction involved)"""
    picked, seen = [], {}
    for lineno, op, args, res in parse_case_lines(casefile):
        if op in ("kcap", "kprove", "kverify", "deepprove"):      # Keccak ops and deep trees: judged by the oracle only
            continue
        if not args or args[0] != "1" and op not in ("compress",):
            continue
        if len(args) > max_args or seen.get(op, 0) >= per_op:
            continue
        seen[op] = seen.get(op, 0) + 1
        picked.append((lineno, op, args, res))
    if not picked:
        return None
    exprs = ["run_%s %s" % (op, coq_list(args)) for (_, op, args, _) in picked]
    out = c.coq_eval_subset(["Model.C12Run"], exprs)
    if out is None:
        return None
    bad = 0
    if len(out) != len(picked):
        c.broken.append("in-Coq subset: expected %d results, got %d" % (len(picked), len(out)))
        return {"cases": len(picked), "mismatches": None}
    for (lineno, op, args, res), o in zip(picked, out):
        got = parse_coq_result(o)
        if got != res:
            bad += 1
            if bad == 1:
                c.broken.append("in-Coq model disagrees with the implementation at line %d (%s)" % (lineno, op))
    return {"cases": len(picked), "mismatches": bad}

def model_casefile(c, cli, casefile):
    """The guide's convention is None = panic; some versions of extract/main.ml print a model None as
    `fail`. Probe the driver with one known-panic case and, if needed, hand it a copy of the case
    file with `= panic` spelled the way the driver prints None."""
    probe = os.path.join(c.work, "probe.txt")
    open(probe, "w").write("cap 1 0 3 1 1 2 3 = panic\n")
    rc, out, _ = run("%s c12 %s" % (cli, probe), cwd=c.work, timeout=60)
    if "TOTAL 1 MISMATCHES 0" in out:
        return casefile
    alt = os.path.join(c.work, "cases_model.txt")
    with open(casefile) as f, open(alt, "w") as g:
        for line in f:
            g.write(line[:-len("= panic\n")] + "= fail\n" if line.endswith("= panic\n") else line)
    return alt

def main():
    a = std_args().parse_args()
    c = Check("C12", a.tier, a.seed)
    if a.replay:
        return replay(c, a.replay)
    ok_tr, errs = c.regenerate()
    ok_mk, log = c.make(["Props/C12.vo", "Model/C12Run.vo"])
    assumptions = c.audit("Props.C12", THEOREMS) if ok_mk else {}
    binary = c.build_harness("release")
    counts, mism, total, nchecked, fails, dist = {}, [], (0, 0), 0, [], {}
    samples, sched, incoq = [], {}, None
    casefile = os.path.join(c.work, "cases.txt")
    if binary and c.run_harness(binary, "c12", casefile):
        nchecked, fails, dist = oracle_scan(casefile)
        for f in fails:
            c.violation(f, "result equal to the level-by-level Merkle specification", f["impl"],
                        "implementation contradicts the Merkle specification: %s %s" % (f["op"], f["why"]))
        # schedule independence at run time: the same cases under other rayon pool sizes must give
        # byte-identical observable results
        threads = ["1"] if a.tier != "thorough" else ["1", "2", "16"]
        ref = open(casefile, "rb").read()
        for t in threads:
            f2 = os.path.join(c.work, "cases_threads%s.txt" % t)
            if c.run_harness(binary, "c12", f2, env={"RAYON_NUM_THREADS": t}):
                same = open(f2, "rb").read() == ref
                sched[t] = same
                if not same:
                    l1, l2 = ref.splitlines(), open(f2, "rb").read().splitlines()
                    k = next((j for j in range(min(len(l1), len(l2))) if l1[j] != l2[j]), min(len(l1), len(l2)))
                    c.violation({"line": k + 1, "threads": t, "case": l1[k][:300].decode(errors="replace") if k < len(l1) else ""},
                                "identical results for every thread count", "results differ",
                                "tree construction depends on the schedule: RAYON_NUM_THREADS=%s differs at line %d" % (t, k + 1))
                os.remove(f2)
        if ok_mk:
            cli = c.build_model_cli()
            if cli:
                counts, mism, total = c.run_model(cli, "c12", model_casefile(c, cli, casefile))
                if mism:
                    c.broken.append("model/implementation correspondence: %d disagreements, first: %s"
                                    % (total[1], mism[0][:400]))
            incoq = in_coq_subset(c, casefile)
        with open(casefile) as f:
            for i, line in enumerate(f):
                if i % 2503 == 0 and len(samples) < 12:
                    samples.append(line.strip()[:300])
    nthm = len(THEOREMS)
    discharged = len([t for t in THEOREMS if assumptions.get(t, "").startswith("Closed")]) if ok_mk else 0
    coverage = {
        "obligations": nthm, "discharged": discharged,
        "checker_cmd": "tools/rs2v.py /repo coq/Gen && make -C coq Props/C12.vo && coqc Audit (Print Assumptions)",
        "trusted_base": ["Coq 8.16.1 kernel + vm_compute",
                         "hand-written model coq/Model/Merkle.v tied to /repo by correspondence (harness/src/c12.rs)",
                         "local textbook Poseidon of coq/Model/MerklePoseidonInst.v (constants regenerated by tools/rs2v.py)",
                         "ExtrOcamlBasic + ExtrOcamlZBigInt, OCaml 4.13.1, zarith, extract/main.ml",
                         "tools/spec_c12.py (Python oracle: level-by-level hashing, own Poseidon)"],
        "theorems": {t: assumptions.get(t, "not checked") for t in THEOREMS},
        "translator_ok": ok_tr, "translator_errors": errs,
        "correspondence_cases": total[0], "correspondence_mismatches": total[1],
        "oracle_checked": nchecked, "schedule_runs_identical": sched,
        "distribution": dist, "model_counts": counts, "samples": samples, "in_coq_subset": incoq,
        "evaluations": nchecked, "distinct_nontrivial": len(dist),
        "rule": "hashers Poseidon and ToyHash; leaf counts 2^0..2^8 (quick) / 2^10 (thorough), widths 1,3,4,5,8,9(,135), "
                "cap heights 0..k (full grid on small trees, sampled above), every position of trees up to 16 leaves; "
                "negative cases: other leaf, other width, other index, out-of-range index, altered/short/long proof, "
                "altered cap entry on and off the path; malformed shapes; path compression on index multisets; batch trees",
    }
    c.finish("proof", coverage, [
        "the hash functions are abstract in the theorems: binding is 'equal or an explicit collision', not a probability bound",
        "proof length is part of the statement (length p = length p'): openings of different lengths are outside the binding theorem",
        "theorems are about the model; the model is tied to the Rust code by correspondence on observable results "
        "(cap, every prove(i), every verdict), not on the internal digests array",
        "KeccakHash<25> is not run (byte-oriented; only the HashOut-shaped hashers are modelled)",
        "decompress_compress is proved for proofs that are openings of one tree (any index multiset); what the two "
        "functions do on inconsistent inputs is covered by correspondence only",
        "data-race freedom of the MaybeUninit writes under rayon is not modelled (index-set disjointness is proved)"])

def replay(c, path):
    r = json.load(open(path))
    case = r["case"]
    binary = c.build_harness("release")
    casefile = os.path.join(c.work, "replay_cases.txt")
    c.seed, c.tier = r["seed"], r["tier"]
    if not binary or not c.run_harness(binary, "c12", casefile):
        print("replay: harness failed"); sys.exit(2)
    want_line = case.get("line")
    for lineno, op, args, res in parse_case_lines(casefile):
        if lineno == want_line and op == case.get("op"):
            msg = spec_c12.check(op, args, res)
            print("replay line %d %s -> %s : %s" % (lineno, op, " ".join(res[:16]), msg or "ok"))
            sys.exit(1 if msg else 0)
    print("replay: case not regenerated"); sys.exit(2)

if __name__ == "__main__":
    main()
