"""C06 - The in-circuit verifier accepts exactly what the native verifier accepts."""
import json, os, re, sys
from checklib import *
import spec_c06

def scan(casefile, prefix, c):
    n, dist, fails, samples, inners, stages = 0, {}, [], [], set(), {}
    for line in open(casefile):
        if not line.startswith(prefix + " "):
            continue
        body, _, desc = line.partition("#")
        f = body.split()
        inner, case, res = f[1], f[2], f[4:]
        info = spec_c06.parse_info(desc)
        n += 1
        inners.add(inner)
        cls = re.sub(r"-?[a-z]?\d+", "", case).strip("-")
        key = "%s:%s" % (cls, "accepted" if info.get("native") == "ok" else "rejected")
        dist[key] = dist.get(key, 0) + 1
        st = info.get("outer", "?").split(":")[0]
        stages[st] = stages.get(st, 0) + 1
        why = spec_c06.check(prefix, [inner, case], res, info)
        if why:
            fails.append({"inner": inner, "case": case, "native": info.get("native"), "outer": info.get("outer"),
                          "why": why, "line": line.strip()[:400]})
        elif len(samples) < 8 and n % 37 == 1:
            samples.append(line.strip()[:220])
    return n, dist, fails, samples, inners, stages

def main():
    a = std_args().parse_args()
    c = Check("C06", a.tier, a.seed)
    if a.replay:
        r = json.load(open(a.replay)); c.seed, c.tier = r["seed"], r["tier"]
    ok_mk, log = c.make(["Props/C06.vo"])
    thms = theorems_of("Props/C06.v")
    assumptions = c.audit("Props.C06", thms) if ok_mk and thms else {}
    binary = c.build_harness("release")
    casefile = os.path.join(c.work, "cases.txt")
    n, dist, fails, samples, inners, stages = 0, {}, [], [], set(), {}
    if binary and c.run_harness(binary, "c06", casefile, timeout=6000):
        n, dist, fails, samples, inners, stages = scan(casefile, "c06", c)
        if n == 0:
            c.broken.append("harness produced no c06 cases")
    seen = set()
    for f in fails:
        what = "case=%s native=%s outer=%s: %s" % (re.sub(r"\d+", "N", f["case"]), (f["native"] or "?").split(":")[0],
                                                     (f["outer"] or "?").split(":")[0], re.sub(r"\s*\(.*\)", "", f["why"]).strip())
        if what in seen:
            continue
        seen.add(what)
        c.violation(f, "native verdict = in-circuit verdict", f["line"], what)
    if a.replay:
        print("replay: %d disagreeing cases" % len(fails)); sys.exit(1 if c.violations else 0)
    coverage = {
        "programs": len(inners), "disagreements_checked": n, "disagreements_found": len(fails),
        "samples": samples or ["none"], "distribution": dist, "outer_failure_stage": stages,
        "evaluations": n, "distinct_nontrivial": len(dist),
        "rule": "inner circuits from the circuit-program generator (with/without lookups, zero knowledge, 1-3 challenges, FRI arities 1/2/3/4 and fixed schedules, cap heights 0-4, narrow and wide rows, standard config); per inner circuit one outer circuit (standard recursion config; thorough: also a zero-knowledge outer config) and the cases: valid proof, one altered element per class (each opening vector, query leaf, Merkle sibling of initial and step paths, step evaluation, final-polynomial coefficient, public input, each proof cap and a commit-phase cap, PoW witness failing / passing the grinding check, verifier-data digest and cap entries), shortened vectors (zero-padded by the assignment routine), proofs of a same-shape and of a different-shape circuit with either verifier data. native = VerifierCircuitData::verify; outer = set_proof_with_pis_target + set_verifier_data_target, generate_partial_witness, gate constraints re-evaluated on every row through verif_hooks::evaluate_gate_constraints, prove, verify, public inputs = inner public inputs ++ verifier data",
        "obligations": len(thms), "discharged": len([t for t in thms if assumptions.get(t, "").startswith("Closed")]),
        "theorems": {t: assumptions.get(t, "not checked") for t in thms},
        "checker_cmd": "make -C coq Props/C06.vo && coqc Audit (Print Assumptions); harness c06",
        "trusted_base": ["Coq 8.16.1 kernel (component theorems)", "harness/src/c06.rs", "tools/spec_c06.py"],
    }
    c.finish("translation_validation", coverage, [
        "the monolithic circuit-equals-native statement is not proved; component theorems (bit decomposition uniqueness, PoW range check, reducing factor) are supporting obligations and the end-to-end statement is decided per case by comparing verdicts",
        "copy constraints of the outer circuit are enforced by the partition witness during generation; a conflict is reported as stage 'witgen'",
        "the Gallina plonk verifier is not part of this comparison (two implementation-side verdicts plus the by-construction expectation)"])
