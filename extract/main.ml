(* model_cli: replays harness case files through the extracted Coq model.
   usage: model_cli <table> <casefile>
   Each line `op a1 a2 .. = r1 r2 ..` is re-evaluated by the model; output:
     `OK n` lines are summarised, disagreements are printed as
     `MISMATCH <lineno> | <line> | model: <model result>`. *)
let z = Z.of_string
let show = function
  | None -> "fail"
  | Some l -> String.concat " " (List.map Z.to_string l)

let c14_table : (string * (Z.t list -> Z.t list option)) list = Model.[
  "add", run_add; "sub", run_sub; "mul", run_mul; "addc", run_addc; "subc", run_subc;
  "red96", run_red96; "red128", run_red128; "red160", run_red160; "mac", run_mac; "neg", run_neg;
  "square", run_square; "canon", run_canon; "fromi64", run_fromi64; "inv", run_inv;
  "ext2mul", run_ext2mul; "ext4mul", run_ext4mul; "ext5mul", run_ext5mul;
  "expu64", run_expu64; "inv2exp", run_inv2exp; "batchinv", run_batchinv;
  "ext2inv", run_ext2inv; "ext4inv", run_ext4inv; "ext5inv", run_ext5inv;
  "ext2frob", run_ext2frob; "ext4frob", run_ext4frob; "ext5frob", run_ext5frob;
  "ext2sq", run_ext2sq; "ext4sq", run_ext4sq; "ext5sq", run_ext5sq;
  "const_w", run_const_w; "const_dth", run_const_dth;
  "padd", run_padd; "psub", run_psub; "pmul", run_pmul; "pneg", run_pneg; "psquare", run_psquare;
  "pinterleave_involution", run_pinterleave_involution ]

let c01_table : (string * (Z.t list -> Z.t list option)) list = Model.[ "prog", run_prog; "plonkverify", run_plonkverify; "challenges", run_challenges ]

let c16_table : (string * (Z.t list -> Z.t list option)) list = Model.[ "dedup", run_dedup; "fricompress", run_fricompress; "fridecompress", run_fridecompress; "friinferred", run_friinferred ]

let c12_table : (string * (Z.t list -> Z.t list option)) list = Model.[
  "cap", run_cap; "prove", run_prove; "proveall", run_proveall; "verify", run_verify;
  "compress", run_compress; "decompress", run_decompress; "bcap", run_bcap; "bopen", run_bopen;
  "bopenall", run_bopenall; "bverify", run_bverify; "hashleaf", run_hashleaf; "twoto1", run_twoto1 ]

let c13_table : (string * (Z.t list -> Z.t list option)) list = Model.[
  "poseidon", run_poseidon; "poseidon_naive", run_poseidon_naive; "poseidon_raw", run_poseidon_raw;
  "poseidon_spec", run_poseidon_spec; "poseidon_fast", run_poseidon_fast; "mds_layer", run_mds_layer;
  "partial_rounds", run_partial_rounds; "mds_partial_fast", run_mds_partial_fast; "hash_no_pad", run_hash_no_pad; "hash_n_to_m", run_hash_n_to_m;
  "two_to_one", run_two_to_one; "hash_or_noop", run_hash_or_noop; "hash_pad", run_hash_pad;
  "challenger", run_challenger; "rchallenger", run_rchallenger; "challenger_x", run_challenger_x ]

let c15_table : (string * (Z.t list -> Z.t list option)) list = Model.[
  "revbits", run_revbits; "revidx", run_revidx; "revidx_inplace", run_revidx_inplace;
  "transpose", run_transpose; "roottable", run_roottable;
  "fft", run_fft; "fft_r", run_fft_r; "fftx", run_fftx;
  "ifft", run_ifft; "ifft_r", run_ifft_r; "ifftx", run_ifftx;
  "coset_fft", run_coset_fft; "coset_fft_r", run_coset_fft_r; "coset_ifft", run_coset_ifft;
  "lde", run_lde; "lde_coset", run_lde_coset; "clde", run_clde;
  "prou", run_prou; "subgroup", run_two_adic_subgroup;
  "eval", run_eval; "evalpow", run_evalpow;
  "polyadd", run_polyadd; "polysub", run_polysub; "polymul", run_polymul; "scalarmul", run_scalarmul;
  "trim", run_trim; "trimlen", run_trimlen; "padded", run_padded; "degp1", run_degp1; "lead", run_lead;
  "divlin", run_divlin; "divrem", run_divrem; "divremlong", run_divremlong; "invmodxn", run_invmodxn;
  "interp", run_interp; "baryw", run_baryw; "interpolate", run_interpolate; "interp2", run_interp2;
  "zpoc", run_zpoc; "zpoc_l0", run_zpoc_l0; "cosetshifts", run_cosetshifts ]

let c05_table : (string * (Z.t list -> Z.t list option)) list = Model.[ "friverify", run_friverify; "aritybits", run_arity_bits; "friprove", run_friprove; "batchfriverify", run_batchfriverify ]

let c17_table : (string * (Z.t list -> Z.t list option)) list = Model.[
  "enc_u8", run_enc_u8; "enc_u32", run_enc_u32; "enc_usize", run_enc_usize; "enc_bool", run_enc_bool;
  "enc_field", run_enc_field; "enc_ext", run_enc_ext; "enc_hash", run_enc_hash; "enc_cap", run_enc_cap;
  "enc_mproof", run_enc_mproof; "enc_usizevec", run_enc_usizevec; "enc_strategy", run_enc_strategy;
  "enc_friconfig", run_enc_friconfig; "enc_friparams", run_enc_friparams;
  "enc_circuitconfig", run_enc_circuitconfig; "enc_openings", run_enc_openings;
  "enc_verifieronly", run_enc_verifieronly; "enc_proof", run_enc_proof;
  "dec_u8", run_dec_u8; "dec_u32", run_dec_u32; "dec_usize", run_dec_usize; "dec_bool", run_dec_bool;
  "dec_field", run_dec_field; "dec_ext", run_dec_ext; "dec_hash", run_dec_hash; "dec_cap", run_dec_cap;
  "dec_mproof", run_dec_mproof; "dec_usizevec", run_dec_usizevec; "dec_strategy", run_dec_strategy;
  "dec_friconfig", run_dec_friconfig; "dec_friparams", run_dec_friparams;
  "dec_circuitconfig", run_dec_circuitconfig; "dec_verifieronly", run_dec_verifieronly;
  "dec_openings", run_dec_openings; "dec_proof", run_dec_proof ]

let c02_table : (string * (Z.t list -> Z.t list option)) list = Model.[ "cpp", run_cpp ]
let c08_table : (string * (Z.t list -> Z.t list option)) list = Model.[ "lkc", run_lkc; "clp", run_clp; "lksel", run_lksel ]
let c09_table : (string * (Z.t list -> Z.t list option)) list = Model.[
  "l0lastb", run_l0lastb; "l0last", run_l0last; "consumer", run_consumer; "sat", run_sat;
  "vanish", run_vanish; "starkid", run_starkid; "starkshape", run_starkshape ]
let c10_table : (string * (Z.t list -> Z.t list option)) list = Model.[
  "lkcols", run_lkcols; "psums", run_psums; "lkeval", run_lkeval; "ctleval", run_ctleval; "ctlsum", run_ctlsum ]

let c07_table : (string * (Z.t list -> Z.t list option)) list = Model.[
  "evalbase", run_gate_evalbase; "gensat", run_gate_evalbase; "evalext", run_gate_evalext; "evalcirc", run_gate_evalext;
  "basevsext", run_gate_basevsext; "generate", run_gate_generate; "genguard", run_gate_genguard; "pinned", run_gate_pinned;
  "sizes", run_gate_sizes; "written", run_gate_written; "lowdeg", run_gate_lowdeg; "circuit_agrees", run_gate_circuit_agrees;
  "absdeg", run_gate_absdeg; "filter", run_gate_filter; "evalfiltered", run_gate_evalfiltered;
  "cosetnew", run_gate_cosetnew; "subgroup", run_gate_subgroup ]

let tables = [ "c07", c07_table; "c02", c02_table; "c08", c08_table; "c09", c09_table; "c10", c10_table; "c17", c17_table; "c05", c05_table; "c15", c15_table; "c13", c13_table; "c12", c12_table; "c14", c14_table; "c01", c01_table; "c16", c16_table; "plonk", c01_table ]

let split_ws s = List.filter (fun x -> x <> "") (String.split_on_char ' ' s)

let () =
  let tname = Sys.argv.(1) and file = Sys.argv.(2) in
  let table = List.assoc tname tables in
  let ic = open_in file in
  let n = ref 0 and bad = ref 0 and lineno = ref 0 in
  let counts = Hashtbl.create 64 in
  let skipped = Hashtbl.create 64 in
  (try
     while true do
       let line = input_line ic in
       incr lineno;
       match String.index_opt line '=' with
       | None -> ()
       | Some i ->
         let lhs = split_ws (String.sub line 0 i) in
         let rhs = String.trim (String.sub line (i + 1) (String.length line - i - 1)) in
         (match lhs with
          | [] -> ()
          | op :: args ->
            (match List.assoc_opt op table with
             | None -> Hashtbl.replace skipped op (1 + try Hashtbl.find skipped op with Not_found -> 0)
             | Some f ->
               (* a trailing `# comment` on the line is not part of the result *)
               let rhs = match String.index_opt rhs '#' with
                 | Some j -> String.trim (String.sub rhs 0 j) | None -> rhs in
               let res = (try show (f (List.map z args)) with Stack_overflow -> "stack_overflow") in
               incr n;
               Hashtbl.replace counts op (1 + try Hashtbl.find counts op with Not_found -> 0);
               if res <> rhs && not (res = "fail" && rhs = "panic") then begin
                 incr bad;
                 let short s = if String.length s > 300 then String.sub s 0 300 ^ "..." else s in
                 if !bad <= 50 then Printf.printf "MISMATCH %d | %s | model: %s\n" !lineno (short line) (short res)
               end))
     done
   with End_of_file -> ());
  Hashtbl.iter (fun op c -> Printf.printf "COUNT %s %d\n" op c) counts;
  Hashtbl.iter (fun op c -> Printf.printf "SKIPPED %s %d\n" op c) skipped;
  Printf.printf "TOTAL %d MISMATCHES %d\n" !n !bad
