(* Extraction of the executable model. Directives used: only those of ExtrOcamlBasic and
   ExtrOcamlZBigInt (listed in DESIGN.md section 4); nat stays the inductive type. *)
From Coq Require Import Extraction ExtrOcamlBasic ExtrOcamlZBigInt.
From Verif Require Import Model.C14Run Model.Prog Model.C16Run Model.Plonk Model.C12Run Model.C13Run Model.C15Run Model.C05Run Model.C17Run Model.C02Run Model.C08Run Model.C09Run Model.C10Run Model.C05Run2 Model.C05Run3 Model.C07Run Model.BatchFri Model.C16Run2 Model.StarkShape.
Extraction Language OCaml.
Extraction "model.ml"
  run_add run_sub run_mul run_addc run_subc run_red96 run_red128 run_red160 run_mac run_neg run_square
  run_canon run_fromi64 run_inv run_ext2mul run_ext4mul run_ext5mul
  run_expu64 run_inv2exp run_batchinv run_ext2inv run_ext4inv run_ext5inv run_ext2frob run_ext4frob
  run_ext5frob run_ext2sq run_ext4sq run_ext5sq run_const_w run_const_dth run_padd run_psub run_pmul run_pneg run_psquare run_pinterleave_involution
  run_prog run_dedup run_plonkverify run_challenges
  run_cap run_prove run_proveall run_verify run_compress run_decompress run_bcap run_bopen run_bopenall run_bverify run_hashleaf run_twoto1
  run_poseidon run_poseidon_naive run_poseidon_raw run_poseidon_spec run_poseidon_fast run_mds_layer run_partial_rounds run_mds_partial_fast run_hash_no_pad run_hash_n_to_m run_two_to_one run_hash_or_noop run_hash_pad run_challenger run_rchallenger run_challenger_x
  run_revbits run_revidx run_revidx_inplace run_transpose run_roottable run_fft run_fft_r run_fftx run_ifft run_ifft_r run_ifftx run_coset_fft run_coset_fft_r run_coset_ifft run_lde run_lde_coset run_clde run_prou run_two_adic_subgroup run_eval run_evalpow run_polyadd run_polysub run_polymul run_scalarmul run_trim run_trimlen run_padded run_degp1 run_lead run_divlin run_divrem run_divremlong run_invmodxn run_interp run_baryw run_interpolate run_interp2 run_zpoc run_zpoc_l0 run_cosetshifts
  run_friverify run_batchfriverify run_fricompress run_fridecompress run_friinferred
  run_enc_u8 run_enc_u32 run_enc_usize run_enc_bool run_enc_field run_enc_ext run_enc_hash run_enc_cap
  run_enc_mproof run_enc_usizevec run_enc_strategy run_enc_friconfig run_enc_friparams run_enc_circuitconfig
  run_enc_openings run_enc_verifieronly run_enc_proof
  run_dec_u8 run_dec_u32 run_dec_usize run_dec_bool run_dec_field run_dec_ext run_dec_hash run_dec_cap
  run_dec_mproof run_dec_usizevec run_dec_strategy run_dec_friconfig run_dec_friparams run_dec_circuitconfig
  run_dec_verifieronly run_dec_openings run_dec_proof
  run_cpp run_lkc run_clp run_lksel
  run_l0lastb run_l0last run_consumer run_sat run_vanish run_starkid run_starkshape run_lkcols run_psums run_lkeval run_ctleval run_ctlsum
  run_arity_bits run_friprove
  run_gate_evalbase run_gate_basevsext run_gate_evalext run_gate_generate run_gate_genguard run_gate_pinned run_gate_sizes run_gate_written run_gate_lowdeg run_gate_circuit_agrees run_gate_absdeg run_gate_filter run_gate_evalfiltered run_gate_cosetnew run_gate_subgroup.
