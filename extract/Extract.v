(* Extraction of the executable model. Directives used: only those of ExtrOcamlBasic and
   ExtrOcamlZBigInt (listed in DESIGN.md section 4); nat stays the inductive type. *)
From Coq Require Import Extraction ExtrOcamlBasic ExtrOcamlZBigInt.
From Verif Require Import Model.C14Run Model.Prog Model.C16Run Model.Plonk.
Extraction Language OCaml.
Extraction "model.ml"
  run_add run_sub run_mul run_addc run_subc run_red96 run_red128 run_red160 run_mac run_neg run_square
  run_canon run_fromi64 run_inv run_ext2mul run_ext4mul run_ext5mul
  run_expu64 run_inv2exp run_batchinv run_ext2inv run_ext4inv run_ext5inv run_ext2frob run_ext4frob
  run_ext5frob run_ext2sq run_ext4sq run_ext5sq run_const_w run_const_dth
  run_prog run_dedup run_plonkverify run_challenges.
